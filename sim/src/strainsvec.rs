//! C11, sub-system 1: the compact strain list against a plain `Vec<f64>` model under
//! seeded operation sequences. Needs the `verif` hook (`--cfg rosu_pp_verif`).
//! Runs natively (debug assertions on) and, unchanged, under Miri.

use rosu_pp::verif::StrainsVec;
use serde_json::{json, Value};

use crate::{
    prng::{fnv, Rng},
    runner::{guard, panic_site, Engine, Stats, Tier, Violation},
    spec::jf,
};

#[derive(Clone, Debug, PartialEq)]
pub enum VOp {
    Push(f64),
    Len,
    Sum,
    IterAll,
    /// consume k items of a fresh iterator, check `len()` of the iterator, drop it
    IterPartial(u32),
    CloneSwap,
    IntoVecOfClone,
    RetainNonZero,
    /// only generated when no zero was pushed since the last retain
    SortDesc,
    RetainAndSort,
    /// retain + sort, then scale every value in place by the factor
    ScaleSorted(f64),
    /// terminal; only generated right after a retain (documented precondition)
    TransmuteIntoVec,
    /// terminal
    IntoVec,
}

fn hexf(v: &Value) -> f64 {
    match v {
        Value::String(s) => f64::from_bits(u64::from_str_radix(s, 16).unwrap_or(0)),
        o => o.as_f64().unwrap_or(0.0),
    }
}

impl VOp {
    fn to_json(&self) -> Value {
        match self {
            VOp::Push(v) => json!({"push": jf(*v)}),
            VOp::Len => json!("len"),
            VOp::Sum => json!("sum"),
            VOp::IterAll => json!("iter_all"),
            VOp::IterPartial(k) => json!({"iter_partial": k}),
            VOp::CloneSwap => json!("clone_swap"),
            VOp::IntoVecOfClone => json!("into_vec_of_clone"),
            VOp::RetainNonZero => json!("retain_non_zero"),
            VOp::SortDesc => json!("sort_desc"),
            VOp::RetainAndSort => json!("retain_non_zero_and_sort"),
            VOp::ScaleSorted(f) => json!({"scale_sorted": jf(*f)}),
            VOp::TransmuteIntoVec => json!("transmute_into_vec"),
            VOp::IntoVec => json!("into_vec"),
        }
    }
    fn from_json(v: &Value) -> Self {
        if let Some(s) = v.as_str() {
            return match s {
                "len" => VOp::Len,
                "sum" => VOp::Sum,
                "iter_all" => VOp::IterAll,
                "clone_swap" => VOp::CloneSwap,
                "into_vec_of_clone" => VOp::IntoVecOfClone,
                "retain_non_zero" => VOp::RetainNonZero,
                "sort_desc" => VOp::SortDesc,
                "retain_non_zero_and_sort" => VOp::RetainAndSort,
                "transmute_into_vec" => VOp::TransmuteIntoVec,
                _ => VOp::IntoVec,
            };
        }
        if !v["push"].is_null() {
            VOp::Push(hexf(&v["push"]))
        } else if let Some(k) = v["iter_partial"].as_u64() {
            VOp::IterPartial(k as u32)
        } else {
            VOp::ScaleSorted(hexf(&v["scale_sorted"]))
        }
    }
    fn kind(&self) -> &'static str {
        match self {
            VOp::Push(v) => {
                if v.is_nan() {
                    "push_nan"
                } else if *v == 0.0 {
                    "push_zero"
                } else if *v < 0.0 {
                    "push_negative"
                } else if !v.is_normal() {
                    "push_subnormal_or_inf"
                } else {
                    "push_positive"
                }
            }
            VOp::Len => "len",
            VOp::Sum => "sum",
            VOp::IterAll => "iter_all",
            VOp::IterPartial(_) => "iter_partial",
            VOp::CloneSwap => "clone_swap",
            VOp::IntoVecOfClone => "into_vec_of_clone",
            VOp::RetainNonZero => "retain_non_zero",
            VOp::SortDesc => "sort_desc",
            VOp::RetainAndSort => "retain_and_sort",
            VOp::ScaleSorted(_) => "scale_sorted",
            VOp::TransmuteIntoVec => "transmute_into_vec",
            VOp::IntoVec => "into_vec",
        }
    }
}

#[derive(Clone, Debug)]
pub struct SvCase {
    pub capacity: usize,
    pub ops: Vec<VOp>,
}

fn gen_value(rng: &mut Rng) -> f64 {
    match rng.weighted(&[40, 22, 4, 8, 4, 3, 3, 3, 3, 4]) {
        0 => rng.frange(1e-6, 1000.0),
        1 => 0.0,
        2 => -0.0,
        3 => -rng.frange(1e-9, 100.0),
        4 => f64::from_bits(1 + rng.below(1 << 40)), // subnormal
        5 => f64::NAN,
        6 => -f64::NAN,
        7 => f64::INFINITY,
        8 => f64::NEG_INFINITY,
        _ => 1e-200 * 1e-200, // underflows to +0.0
    }
}

fn gen_case(rng: &mut Rng, tier: Tier) -> SvCase {
    let len = match tier {
        Tier::Quick => 4 + rng.usize(60),
        Tier::Thorough => 4 + rng.usize(300),
    };
    let zero_runs = rng.chance(0.5);
    let mut ops = Vec::new();
    let mut dirty_zero = false; // a zero entry may exist since the last retain
    for i in 0..len {
        let last = i + 1 == len;
        let op = if last && rng.chance(0.7) {
            if !dirty_zero && rng.chance(0.5) {
                VOp::TransmuteIntoVec
            } else {
                VOp::IntoVec
            }
        } else {
            match rng.weighted(&[50, 4, 5, 5, 5, 4, 4, 5, 4, 5, 6]) {
                0 => {
                    let v = if zero_runs && rng.chance(0.5) { 0.0 } else { gen_value(rng) };
                    VOp::Push(v)
                }
                1 => VOp::Len,
                2 => VOp::Sum,
                3 => VOp::IterAll,
                4 => VOp::IterPartial(rng.below(12) as u32),
                5 => VOp::CloneSwap,
                6 => VOp::IntoVecOfClone,
                7 => VOp::RetainNonZero,
                8 => {
                    if dirty_zero {
                        VOp::RetainAndSort
                    } else {
                        VOp::SortDesc
                    }
                }
                9 => VOp::RetainAndSort,
                _ => VOp::ScaleSorted(*rng.pick(&[1.0, 0.9, 0.5, 0.94, 0.25, 0.999_999])),
            }
        };
        match &op {
            VOp::Push(v) => {
                if !(v.to_bits() > 0 && v.is_sign_positive()) {
                    dirty_zero = true;
                }
            }
            VOp::RetainNonZero | VOp::RetainAndSort | VOp::ScaleSorted(_) => dirty_zero = false,
            _ => {}
        }
        let term = matches!(op, VOp::TransmuteIntoVec | VOp::IntoVec);
        ops.push(op);
        if term {
            break;
        }
    }
    SvCase {
        capacity: *rng.pick(&[0usize, 1, 8, 64]),
        ops,
    }
}

fn is_value(v: f64) -> bool {
    v.to_bits() > 0 && v.is_sign_positive()
}

fn same(a: f64, b: f64) -> bool {
    a == b || (a.is_nan() && b.is_nan())
}

fn same_vec(a: &[f64], b: &[f64]) -> bool {
    a.len() == b.len() && a.iter().zip(b).all(|(x, y)| same(*x, *y))
}

fn exec(c: &SvCase, st: &mut Stats) -> Option<Violation> {
    let r = guard(|| exec_inner(c, st));
    match r {
        Ok(v) => v,
        Err(p) => Some(Violation::new(format!("C11/strainsvec/panic@{}", panic_site(&p)), p)),
    }
}

fn exec_inner(c: &SvCase, st: &mut Stats) -> Option<Violation> {
    let mut sv = StrainsVec::with_capacity(c.capacity);
    // model: (value as stored, is it a "value" entry)
    let mut m: Vec<f64> = Vec::new();
    // whether the entry was stored as a value (strictly positive when pushed). A value that is later
    // scaled down to +0.0 in place stays an entry; `retain_non_zero` means "drop what was pushed as zero".
    let mut isv: Vec<bool> = Vec::new();
    fn retain(m: &mut Vec<f64>, isv: &mut Vec<bool>) {
        let mut i = 0;
        m.retain(|_| {
            i += 1;
            isv[i - 1]
        });
        isv.retain(|b| *b);
    }
    fn sort(m: &mut [f64]) {
        m.sort_by(|a, b| b.total_cmp(a));
    }
    let bad = |what: &str, d: String| Some(Violation::new(format!("C11/strainsvec/{what}"), d));
    let mut zero_since_retain = false;
    for (i, op) in c.ops.iter().enumerate() {
        st.ops += 1;
        st.fault(&format!("sv_{}", op.kind()));
        match op {
            VOp::Push(v) => {
                sv.push(*v);
                if is_value(*v) {
                    m.push(*v);
                    isv.push(true);
                } else {
                    m.push(0.0);
                    isv.push(false);
                    zero_since_retain = true;
                }
            }
            VOp::Len => {
                if sv.len() != m.len() {
                    return bad("len", format!("op {i}: len {} vs model {}", sv.len(), m.len()));
                }
            }
            VOp::Sum => {
                let a = sv.sum();
                let b: f64 = m.iter().zip(isv.iter()).filter(|(_, f)| **f).map(|(v, _)| *v).sum();
                if !same(a, b) {
                    return bad("sum", format!("op {i}: sum {a} vs model {b}"));
                }
            }
            VOp::IterAll => {
                let it = sv.iter();
                if it.len() != m.len() {
                    return bad("iter-len", format!("op {i}: iter().len() {} vs {}", it.len(), m.len()));
                }
                let got: Vec<f64> = it.collect();
                if !same_vec(&got, &m) {
                    return bad("iter", format!("op {i}: iter() {got:?} vs model {m:?}"));
                }
            }
            VOp::IterPartial(k) => {
                let mut it = sv.iter();
                for j in 0..(*k as usize) {
                    let got = it.next();
                    let exp = m.get(j).copied();
                    let ok = match (got, exp) {
                        (Some(a), Some(b)) => same(a, b),
                        (None, None) => true,
                        _ => false,
                    };
                    if !ok {
                        return bad("iter-partial", format!("op {i}: item {j}: {got:?} vs {exp:?}"));
                    }
                }
                let rest = m.len().saturating_sub(*k as usize);
                if it.len() != rest {
                    return bad("iter-len", format!("op {i}: after {k} items len() {} vs {rest}", it.len()));
                }
            }
            VOp::CloneSwap => {
                // continue on the clone, drop the original
                let cl = sv.clone();
                drop(std::mem::replace(&mut sv, cl));
            }
            VOp::IntoVecOfClone => {
                let got = sv.clone().into_vec();
                if !same_vec(&got, &m) {
                    return bad("into_vec", format!("op {i}: into_vec {got:?} vs model {m:?}"));
                }
            }
            VOp::RetainNonZero => {
                sv.retain_non_zero();
                retain(&mut m, &mut isv);
                zero_since_retain = false;
            }
            VOp::SortDesc => {
                if zero_since_retain {
                    st.probe("sort_desc_skipped_precondition");
                    continue;
                }
                sv.sort_desc();
                sort(&mut m);
            }
            VOp::RetainAndSort => {
                sv.retain_non_zero_and_sort();
                retain(&mut m, &mut isv);
                sort(&mut m);
                zero_since_retain = false;
            }
            VOp::ScaleSorted(f) => {
                retain(&mut m, &mut isv);
                sort(&mut m);
                let it = sv.sorted_non_zero_iter_mut();
                if it.len() != m.len() {
                    return bad("sorted-iter-len", format!("op {i}: {} vs {}", it.len(), m.len()));
                }
                for (x, y) in it.zip(m.iter_mut()) {
                    if !same(*x, *y) {
                        return bad("sorted-iter", format!("op {i}: {x} vs model {y}"));
                    }
                    *x *= *f;
                    *y *= *f;
                }
                zero_since_retain = false;
                // a value scaled down to +0.0 stays an entry of the list
            }
            VOp::TransmuteIntoVec => {
                if zero_since_retain {
                    st.probe("transmute_skipped_precondition");
                    return None;
                }
                // SAFETY: precondition (no zero entries) established by the preceding retain
                let got = unsafe { sv.transmute_into_vec() };
                if !same_vec(&got, &m) {
                    return bad("transmute_into_vec", format!("{got:?} vs model {m:?}"));
                }
                return None;
            }
            VOp::IntoVec => {
                let got = sv.into_vec();
                if !same_vec(&got, &m) {
                    return bad("into_vec", format!("final into_vec {got:?} vs model {m:?}"));
                }
                return None;
            }
        }
        // cross-invariant after every step
        if sv.len() != m.len() {
            return bad("len", format!("after op {i} ({}): len {} vs model {}", op.kind(), sv.len(), m.len()));
        }
    }
    let got: Vec<f64> = sv.iter().collect();
    if !same_vec(&got, &m) {
        return bad("iter", format!("final iter() {got:?} vs model {m:?}"));
    }
    None
}

fn simpler(c: &SvCase) -> Vec<SvCase> {
    let mut out = Vec::new();
    let n = c.ops.len();
    if n > 2 {
        let mut x = c.clone();
        x.ops.drain(..n / 2);
        out.push(x);
        let mut x = c.clone();
        x.ops.truncate(n / 2);
        out.push(x);
    }
    for i in (0..n).rev() {
        let mut x = c.clone();
        x.ops.remove(i);
        out.push(x);
    }
    for (i, op) in c.ops.iter().enumerate() {
        if let VOp::Push(v) = op {
            if *v != 1.0 && is_value(*v) {
                let mut x = c.clone();
                x.ops[i] = VOp::Push(1.0);
                out.push(x);
            }
        }
    }
    out
}

pub struct StrainsVecEngine;

impl Engine for StrainsVecEngine {
    type Case = SvCase;
    fn name() -> &'static str {
        "c11s"
    }
    fn gen(rng: &mut Rng, tier: Tier) -> SvCase {
        gen_case(rng, tier)
    }
    fn exec(case: &SvCase, stats: &mut Stats) -> Option<Violation> {
        exec(case, stats)
    }
    fn simpler(case: &SvCase) -> Vec<SvCase> {
        simpler(case)
    }
    fn to_json(c: &SvCase) -> Value {
        json!({"capacity": c.capacity, "ops": c.ops.iter().map(VOp::to_json).collect::<Vec<_>>()})
    }
    fn from_json(v: &Value) -> SvCase {
        SvCase {
            capacity: v["capacity"].as_u64().unwrap_or(0) as usize,
            ops: v["ops"].as_array().map(|a| a.iter().map(VOp::from_json).collect()).unwrap_or_default(),
        }
    }
    fn signature(c: &SvCase) -> u64 {
        let kinds: Vec<&str> = c.ops.iter().map(VOp::kind).collect();
        fnv(format!("{kinds:?}").as_bytes())
    }
    fn nontrivial(c: &SvCase) -> bool {
        c.ops.iter().any(|o| !matches!(o, VOp::Push(_)))
    }
}

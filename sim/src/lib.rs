//! Deterministic simulation harness for rosu-pp. See /verif/DESIGN.md.
pub mod builder;
pub mod conc;
pub mod edited;
pub mod grad;
pub mod hist;
pub mod io;
pub mod mapgen;
pub mod pipe;
pub mod prng;
pub mod runner;
pub mod seams;
pub mod spec;
#[cfg(rosu_pp_verif)]
pub mod strainsvec;
pub mod sut;
pub mod trace;

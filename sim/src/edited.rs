//! C11, sub-system 6: maps *edited in code*. `Beatmap`'s fields are public, so safe code can
//! hand the calculators a map no decoder would produce (fewer hit sounds than objects, objects
//! out of order, control points missing or unsorted, a mode that does not fit the objects).
//! Panics are fine there; memory errors are not. The oracle is therefore only the monitor:
//! Miri, and natively the overflow-/precondition-checked build plus process isolation (a
//! dereference of garbage aborts or segfaults the worker).

use rosu_pp::{model::mode::GameMode, Beatmap};
use serde_json::{json, Value};

use crate::{
    mapgen::{gen_map, gen_shape, MapText},
    prng::{fnv, Rng},
    runner::{guard, Engine, Stats, Tier, Violation},
    spec::{gen_diff, gen_state, DiffSpec, StateSpec, MODES},
    sut::{self, AnyGD, AnyGP},
};

#[derive(Clone, Debug, PartialEq)]
pub enum Edit {
    SoundsTruncate(usize),
    SoundsClear,
    SoundsExtend(usize),
    ObjectsReverse,
    ObjectsSwap(usize, usize),
    ObjectsTruncate(usize),
    TimingClear,
    DifficultyPointsClear,
    EffectPointsClear,
    TimingSwap,
    BreaksReverse,
    Mode(usize),
    FlipConvert,
}

impl Edit {
    fn to_json(&self) -> Value {
        match self {
            Edit::SoundsTruncate(k) => json!({"sounds_truncate": k}),
            Edit::SoundsClear => json!("sounds_clear"),
            Edit::SoundsExtend(k) => json!({"sounds_extend": k}),
            Edit::ObjectsReverse => json!("objects_reverse"),
            Edit::ObjectsSwap(a, b) => json!({"objects_swap": [a, b]}),
            Edit::ObjectsTruncate(k) => json!({"objects_truncate": k}),
            Edit::TimingClear => json!("timing_clear"),
            Edit::DifficultyPointsClear => json!("difficulty_points_clear"),
            Edit::EffectPointsClear => json!("effect_points_clear"),
            Edit::TimingSwap => json!("timing_swap"),
            Edit::BreaksReverse => json!("breaks_reverse"),
            Edit::Mode(m) => json!({"mode": m}),
            Edit::FlipConvert => json!("flip_is_convert"),
        }
    }
    fn from_json(v: &Value) -> Edit {
        if let Some(s) = v.as_str() {
            return match s {
                "sounds_clear" => Edit::SoundsClear,
                "objects_reverse" => Edit::ObjectsReverse,
                "timing_clear" => Edit::TimingClear,
                "difficulty_points_clear" => Edit::DifficultyPointsClear,
                "effect_points_clear" => Edit::EffectPointsClear,
                "timing_swap" => Edit::TimingSwap,
                "breaks_reverse" => Edit::BreaksReverse,
                _ => Edit::FlipConvert,
            };
        }
        let u = |k: &str| v[k].as_u64().map(|n| n as usize);
        if let Some(k) = u("sounds_truncate") {
            Edit::SoundsTruncate(k)
        } else if let Some(k) = u("sounds_extend") {
            Edit::SoundsExtend(k)
        } else if let Some(k) = u("objects_truncate") {
            Edit::ObjectsTruncate(k)
        } else if let Some(m) = u("mode") {
            Edit::Mode(m)
        } else {
            let a = v["objects_swap"][0].as_u64().unwrap_or(0) as usize;
            let b = v["objects_swap"][1].as_u64().unwrap_or(0) as usize;
            Edit::ObjectsSwap(a, b)
        }
    }
    fn kind(&self) -> &'static str {
        match self {
            Edit::SoundsTruncate(_) => "sounds_truncate",
            Edit::SoundsClear => "sounds_clear",
            Edit::SoundsExtend(_) => "sounds_extend",
            Edit::ObjectsReverse => "objects_reverse",
            Edit::ObjectsSwap(..) => "objects_swap",
            Edit::ObjectsTruncate(_) => "objects_truncate",
            Edit::TimingClear => "timing_clear",
            Edit::DifficultyPointsClear => "difficulty_points_clear",
            Edit::EffectPointsClear => "effect_points_clear",
            Edit::TimingSwap => "timing_swap",
            Edit::BreaksReverse => "breaks_reverse",
            Edit::Mode(_) => "mode",
            Edit::FlipConvert => "flip_is_convert",
        }
    }
    fn apply(&self, m: &mut Beatmap) {
        match self {
            Edit::SoundsTruncate(k) => m.hit_sounds.truncate(*k),
            Edit::SoundsClear => m.hit_sounds.clear(),
            Edit::SoundsExtend(k) => {
                if let Some(s) = m.hit_sounds.last().copied() {
                    for _ in 0..*k {
                        m.hit_sounds.push(s);
                    }
                }
            }
            Edit::ObjectsReverse => m.hit_objects.reverse(),
            Edit::ObjectsSwap(a, b) => {
                let n = m.hit_objects.len();
                if n > 1 {
                    m.hit_objects.swap(a % n, b % n);
                }
            }
            Edit::ObjectsTruncate(k) => m.hit_objects.truncate(*k),
            Edit::TimingClear => m.timing_points.clear(),
            Edit::DifficultyPointsClear => m.difficulty_points.clear(),
            Edit::EffectPointsClear => m.effect_points.clear(),
            Edit::TimingSwap => {
                if m.timing_points.len() > 1 {
                    m.timing_points.swap(0, 1);
                }
                if m.effect_points.len() > 1 {
                    let n = m.effect_points.len();
                    m.effect_points.swap(0, n - 1);
                }
            }
            Edit::BreaksReverse => m.breaks.reverse(),
            Edit::Mode(k) => m.mode = MODES[*k % 4],
            Edit::FlipConvert => m.is_convert = !m.is_convert,
        }
    }
}

#[derive(Clone, Debug)]
pub struct EditedCase {
    pub map: MapText,
    pub edits: Vec<Edit>,
    pub diff: DiffSpec,
    pub state: StateSpec,
    pub k: usize,
}

fn gen_case(rng: &mut Rng, tier: Tier) -> EditedCase {
    let max_n = if cfg!(miri) { 5 } else if tier == Tier::Quick { 20 } else { 50 };
    let mode = rng.weighted(&[40, 25, 15, 20]);
    let mut sh = gen_shape(rng, mode, max_n);
    sh.n = sh.n.max(2);
    let map = gen_map(rng, &sh);
    let n = map.objects.len();
    let n_edits = 1 + rng.usize(3);
    let edits = (0..n_edits)
        .map(|_| match rng.weighted(&[22, 8, 8, 8, 8, 6, 7, 5, 5, 6, 3, 10, 4]) {
            0 => Edit::SoundsTruncate(rng.usize(n + 1)),
            1 => Edit::SoundsClear,
            2 => Edit::SoundsExtend(1 + rng.usize(4)),
            3 => Edit::ObjectsReverse,
            4 => Edit::ObjectsSwap(rng.usize(n.max(1)), rng.usize(n.max(1))),
            5 => Edit::ObjectsTruncate(rng.usize(n + 1)),
            6 => Edit::TimingClear,
            7 => Edit::DifficultyPointsClear,
            8 => Edit::EffectPointsClear,
            9 => Edit::TimingSwap,
            10 => Edit::BreaksReverse,
            11 => Edit::Mode(rng.usize(4)),
            _ => Edit::FlipConvert,
        })
        .collect();
    EditedCase {
        map,
        edits,
        diff: if rng.chance(0.6) { DiffSpec::default() } else { gen_diff(rng, mode) },
        state: gen_state(rng, n as u32),
        k: rng.usize(n + 2),
    }
}

fn exec(c: &EditedCase, st: &mut Stats) -> Option<Violation> {
    let mut map = sut::decode(&c.map.render());
    for e in &c.edits {
        e.apply(&mut map);
        st.fault(&format!("edit_{}", e.kind()));
    }
    let mut panics = 0u64;
    let mut run = |f: &mut dyn FnMut()| {
        st.ops += 1;
        if guard(|| f()).is_err() {
            panics += 1;
        }
    };
    let d = c.diff.build();
    run(&mut || {
        let _ = map.bpm();
        let _ = map.attributes().difficulty(&d).build();
    });
    let targets: Vec<usize> = if map.mode == GameMode::Osu && !map.is_convert {
        vec![0, 1, 2, 3]
    } else {
        vec![crate::spec::mode_idx(map.mode)]
    };
    for &t in &targets {
        run(&mut || {
            let _ = sut::oneshot_diff(&d, &map, t);
        });
        run(&mut || {
            let _ = sut::oneshot_diff(&c.diff.with_passed(c.k as u32), &map, t);
        });
        run(&mut || {
            let _ = sut::oneshot_strains(&d, &map, t);
        });
        for api_enum in [false, true] {
            run(&mut || {
                if let Ok(mut g) = AnyGD::new(c.diff.build(), &map, t, api_enum) {
                    let _ = g.len();
                    let mut n = 0;
                    while g.next().is_some() {
                        n += 1;
                        if n > 10_000 {
                            break;
                        }
                    }
                }
            });
            run(&mut || {
                if let Ok(mut g) = AnyGD::new(c.diff.build(), &map, t, api_enum) {
                    let _ = g.nth(c.k);
                    let _ = g.next();
                    let _ = g.len();
                }
            });
        }
        run(&mut || {
            if let Ok(mut g) = AnyGP::new(c.diff.build(), &map, t, false) {
                let _ = g.next(c.state.build());
                let _ = g.nth(c.state.build(), c.k);
                let _ = g.last(c.state.build());
            }
        });
    }
    if panics > 0 {
        st.probe("panicked_on_edited_map");
    } else {
        st.probe("no_panic_on_edited_map");
    }
    None
}

pub struct C11EditedEngine;

impl Engine for C11EditedEngine {
    type Case = EditedCase;
    fn name() -> &'static str {
        "c11e"
    }
    fn gen(rng: &mut Rng, tier: Tier) -> EditedCase {
        gen_case(rng, tier)
    }
    fn exec(case: &EditedCase, stats: &mut Stats) -> Option<Violation> {
        exec(case, stats)
    }
    fn simpler(case: &EditedCase) -> Vec<EditedCase> {
        let mut out = Vec::new();
        for i in 0..case.edits.len() {
            let mut x = case.clone();
            x.edits.remove(i);
            out.push(x);
        }
        for m in case.map.simpler() {
            let mut x = case.clone();
            x.map = m;
            out.push(x);
        }
        out
    }
    fn to_json(c: &EditedCase) -> Value {
        json!({"map": c.map.to_json(), "edits": c.edits.iter().map(Edit::to_json).collect::<Vec<_>>(),
               "diff": c.diff.to_json(), "state": c.state.to_json(), "k": c.k})
    }
    fn from_json(v: &Value) -> EditedCase {
        EditedCase {
            map: MapText::from_json(&v["map"]),
            edits: v["edits"].as_array().map(|a| a.iter().map(Edit::from_json).collect()).unwrap_or_default(),
            diff: DiffSpec::from_json(&v["diff"]),
            state: StateSpec::from_json(&v["state"]),
            k: v["k"].as_u64().unwrap_or(0) as usize,
        }
    }
    fn signature(c: &EditedCase) -> u64 {
        let kinds: Vec<&str> = c.edits.iter().map(Edit::kind).collect();
        fnv(format!("{kinds:?}|{}", c.map.objects.len() / 4).as_bytes())
    }
    fn nontrivial(_c: &EditedCase) -> bool {
        true
    }
}

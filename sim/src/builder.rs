//! E1 for C18: histories of setter calls on the builders. Three clients are
//! driven with the same seeded history -- a `Performance` configured through its
//! own setters, a `Difficulty` configured through its setters and then handed to
//! a `Performance`, and a record model ("last value per field, clamped") -- and
//! must agree on the result, on the inspectable form and on the clamps.

use rosu_pp::{
    any::{InspectDifficulty, ModsDependent},
    Beatmap, Difficulty, GameMods, Performance,
};
use serde_json::{json, Value};

use crate::{
    mapgen::{gen_map, gen_shape, real_window, MapText},
    prng::{fnv, Rng},
    runner::{guard, panic_site, Engine, Stats, Tier, Violation},
    spec::{gen_diff, gen_mods, gen_score, jf, mode_name, DiffSpec, ModsSpec, ScoreSpec, MODES},
    sut,
};

#[derive(Clone, Debug, PartialEq)]
pub enum SOp {
    Mods(ModsSpec),
    Passed(u32),
    ClockRate(f64),
    Ar(f32, bool),
    Cs(f32, bool),
    Hp(f32, bool),
    Od(f32, bool),
    HrOffsets(bool),
    Lazer(bool),
    /// `.difficulty(d)` on the Performance; the Difficulty client is replaced by `d`.
    Replace(DiffSpec),
    /// `Difficulty -> inspect() -> into_difficulty()` at this point of the history.
    InspectRoundTrip,
    CloneBuilder,
}

fn hexf(v: &Value) -> f64 {
    match v {
        Value::String(s) => f64::from_bits(u64::from_str_radix(s, 16).unwrap_or(0)),
        o => o.as_f64().unwrap_or(0.0),
    }
}

impl SOp {
    fn to_json(&self) -> Value {
        match self {
            SOp::Mods(m) => json!({"mods": m.to_json()}),
            SOp::Passed(n) => json!({"passed": n}),
            SOp::ClockRate(r) => json!({"clock_rate": jf(*r)}),
            SOp::Ar(v, w) => json!({"ar": jf(f64::from(*v)), "w": w}),
            SOp::Cs(v, w) => json!({"cs": jf(f64::from(*v)), "w": w}),
            SOp::Hp(v, w) => json!({"hp": jf(f64::from(*v)), "w": w}),
            SOp::Od(v, w) => json!({"od": jf(f64::from(*v)), "w": w}),
            SOp::HrOffsets(b) => json!({"hr_offsets": b}),
            SOp::Lazer(b) => json!({"lazer": b}),
            SOp::Replace(d) => json!({"replace": d.to_json()}),
            SOp::InspectRoundTrip => json!("inspect_round_trip"),
            SOp::CloneBuilder => json!("clone"),
        }
    }
    fn from_json(v: &Value) -> SOp {
        if let Some(s) = v.as_str() {
            return if s == "clone" {
                SOp::CloneBuilder
            } else {
                SOp::InspectRoundTrip
            };
        }
        let w = v["w"].as_bool().unwrap_or(false);
        if !v["mods"].is_null() {
            SOp::Mods(ModsSpec::from_json(&v["mods"]))
        } else if let Some(n) = v["passed"].as_u64() {
            SOp::Passed(n as u32)
        } else if !v["clock_rate"].is_null() {
            SOp::ClockRate(hexf(&v["clock_rate"]))
        } else if !v["ar"].is_null() {
            SOp::Ar(hexf(&v["ar"]) as f32, w)
        } else if !v["cs"].is_null() {
            SOp::Cs(hexf(&v["cs"]) as f32, w)
        } else if !v["hp"].is_null() {
            SOp::Hp(hexf(&v["hp"]) as f32, w)
        } else if !v["od"].is_null() {
            SOp::Od(hexf(&v["od"]) as f32, w)
        } else if let Some(b) = v["hr_offsets"].as_bool() {
            SOp::HrOffsets(b)
        } else if let Some(b) = v["lazer"].as_bool() {
            SOp::Lazer(b)
        } else {
            SOp::Replace(DiffSpec::from_json(&v["replace"]))
        }
    }
    fn kind(&self) -> &'static str {
        match self {
            SOp::Mods(_) => "mods",
            SOp::Passed(_) => "passed",
            SOp::ClockRate(_) => "clock_rate",
            SOp::Ar(..) => "ar",
            SOp::Cs(..) => "cs",
            SOp::Hp(..) => "hp",
            SOp::Od(..) => "od",
            SOp::HrOffsets(_) => "hr_offsets",
            SOp::Lazer(_) => "lazer",
            SOp::Replace(_) => "replace_difficulty",
            SOp::InspectRoundTrip => "inspect_round_trip",
            SOp::CloneBuilder => "clone",
        }
    }
}

#[derive(Clone, Debug)]
pub struct BuilderCase {
    pub map: MapText,
    pub target: usize,
    pub ops: Vec<SOp>,
    pub score: ScoreSpec,
    /// (field, raw value) written into the public fields of `InspectDifficulty`
    pub inspect_mutation: Option<(String, f64)>,
}

fn clamp_rate(r: f64) -> f64 {
    r.clamp(0.01, 100.0)
}
fn clamp_attr(v: f32) -> f32 {
    v.clamp(-20.0, 20.0)
}

/// The record model.
fn apply_model(m: &mut DiffSpec, op: &SOp) {
    match op {
        SOp::Mods(s) => m.mods = Some(s.clone()),
        SOp::Passed(n) => m.passed = Some(*n),
        SOp::ClockRate(r) => m.clock_rate = Some(clamp_rate(*r)),
        SOp::Ar(v, w) => m.ar = Some((clamp_attr(*v), *w)),
        SOp::Cs(v, w) => m.cs = Some((clamp_attr(*v), *w)),
        SOp::Hp(v, w) => m.hp = Some((clamp_attr(*v), *w)),
        SOp::Od(v, w) => m.od = Some((clamp_attr(*v), *w)),
        SOp::HrOffsets(b) => m.hr_offsets = Some(*b),
        SOp::Lazer(b) => m.lazer = Some(*b),
        SOp::Replace(d) => {
            let mut d = d.clone();
            d.clock_rate = d.clock_rate.map(clamp_rate);
            for a in [&mut d.ar, &mut d.cs, &mut d.hp, &mut d.od] {
                *a = a.map(|(v, w)| (clamp_attr(v), w));
            }
            *m = d;
        }
        SOp::InspectRoundTrip | SOp::CloneBuilder => {}
    }
}

fn apply_perf<'a>(p: Performance<'a>, op: &SOp) -> Performance<'a> {
    match op {
        SOp::Mods(s) => s.apply_perf(p),
        SOp::Passed(n) => p.passed_objects(*n),
        SOp::ClockRate(r) => p.clock_rate(*r),
        SOp::Ar(v, w) => p.ar(*v, *w),
        SOp::Cs(v, w) => p.cs(*v, *w),
        SOp::Hp(v, w) => p.hp(*v, *w),
        SOp::Od(v, w) => p.od(*v, *w),
        SOp::HrOffsets(b) => p.hardrock_offsets(*b),
        SOp::Lazer(b) => p.lazer(*b),
        SOp::Replace(d) => p.difficulty(d.build()),
        SOp::InspectRoundTrip => p,
        SOp::CloneBuilder => p.clone(),
    }
}

fn apply_diff(d: Difficulty, op: &SOp) -> Difficulty {
    match op {
        SOp::Mods(s) => s.apply_diff(d),
        SOp::Passed(n) => d.passed_objects(*n),
        SOp::ClockRate(r) => d.clock_rate(*r),
        SOp::Ar(v, w) => d.ar(*v, *w),
        SOp::Cs(v, w) => d.cs(*v, *w),
        SOp::Hp(v, w) => d.hp(*v, *w),
        SOp::Od(v, w) => d.od(*v, *w),
        SOp::HrOffsets(b) => d.hardrock_offsets(*b),
        SOp::Lazer(b) => d.lazer(*b),
        SOp::Replace(s) => s.build(),
        SOp::InspectRoundTrip => d.inspect().into_difficulty(),
        SOp::CloneBuilder => d.clone(),
    }
}

fn md(a: Option<(f32, bool)>) -> Option<ModsDependent> {
    a.map(|(value, with_mods)| ModsDependent { value, with_mods })
}

fn model_inspect(m: &DiffSpec) -> InspectDifficulty {
    InspectDifficulty {
        mods: m
            .mods
            .as_ref()
            .map_or_else(|| GameMods::from(0u32), ModsSpec::build),
        passed_objects: m.passed,
        clock_rate: m.clock_rate,
        ar: md(m.ar),
        cs: md(m.cs),
        hp: md(m.hp),
        od: md(m.od),
        hardrock_offsets: m.hr_offsets,
        lazer: m.lazer,
    }
}

fn gen_rate_any(rng: &mut Rng) -> f64 {
    match rng.below(10) {
        0 => 0.0,
        1 => -1.5,
        2 => 1e-5,
        3 => 0.01,
        4 => 100.0,
        5 => *rng.pick(&[1000.0, 100.000_001, f64::INFINITY, f64::NEG_INFINITY, 0.009_999]),
        _ => (rng.frange(0.3, 2.5) * 100.0).round() / 100.0,
    }
}

fn gen_attr_any(rng: &mut Rng) -> f32 {
    match rng.below(10) {
        0 => -20.0,
        1 => 20.0,
        2 => *rng.pick(&[-25.5f32, 33.0, 20.000_002, -20.000_002, 1e30, -1e30, f32::INFINITY, f32::NEG_INFINITY]),
        3 => (rng.frange(-20.0, 20.0) * 10.0).round() as f32 / 10.0,
        _ => (rng.frange(0.0, 11.0) * 10.0).round() as f32 / 10.0,
    }
}

fn gen_sop(rng: &mut Rng, target: usize) -> SOp {
    match rng.weighted(&[14, 8, 12, 10, 10, 8, 10, 6, 8, 6, 5, 3]) {
        0 => SOp::Mods(gen_mods(rng, target)),
        1 => SOp::Passed(rng.below(70) as u32),
        2 => SOp::ClockRate(gen_rate_any(rng)),
        3 => SOp::Ar(gen_attr_any(rng), rng.chance(0.4)),
        4 => SOp::Cs(gen_attr_any(rng), rng.chance(0.4)),
        5 => SOp::Hp(gen_attr_any(rng), rng.chance(0.4)),
        6 => SOp::Od(gen_attr_any(rng), rng.chance(0.4)),
        7 => SOp::HrOffsets(rng.chance(0.5)),
        8 => SOp::Lazer(rng.chance(0.5)),
        9 => SOp::Replace(gen_diff(rng, target)),
        10 => SOp::InspectRoundTrip,
        _ => SOp::CloneBuilder,
    }
}

fn gen_case(rng: &mut Rng, tier: Tier) -> BuilderCase {
    let max_n = if tier == Tier::Quick { 20 } else { 40 };
    let max_n = if cfg!(miri) { 4 } else { max_n };
    let (map, map_mode) = if !cfg!(miri) && rng.chance(0.2) {
        let idx = rng.usize(4);
        (real_window(rng, idx, max_n), idx)
    } else {
        let mode = rng.weighted(&[40, 20, 20, 20]);
        let mut sh = gen_shape(rng, mode, max_n);
        if sh.n < 3 {
            sh.n += 3;
        }
        if cfg!(miri) {
            sh.n = sh.n.min(4);
        }
        (gen_map(rng, &sh), mode)
    };
    let target = if map_mode == 0 {
        rng.weighted(&[40, 20, 20, 20])
    } else {
        map_mode
    };
    let len = 1 + rng.usize(12);
    let ops = (0..len).map(|_| gen_sop(rng, target)).collect();
    let n = map.objects.len() as u32;
    let inspect_mutation = if rng.chance(0.5) {
        let f = *rng.pick(&["clock_rate", "ar", "cs", "hp", "od"]);
        let v = if f == "clock_rate" {
            gen_rate_any(rng)
        } else {
            f64::from(gen_attr_any(rng))
        };
        Some((f.to_owned(), v))
    } else {
        None
    };
    BuilderCase {
        map,
        target,
        ops,
        score: gen_score(rng, n.max(1)),
        inspect_mutation,
    }
}

fn calc(map: &Beatmap, d: Difficulty, score: &ScoreSpec) -> String {
    match guard(|| sut::dig_pa(&score.apply(Performance::new(map).difficulty(d)).calculate())) {
        Ok(s) => s,
        Err(p) => format!("PANIC {}", panic_site(&p)),
    }
}

fn exec(c: &BuilderCase, st: &mut Stats) -> Option<Violation> {
    let mode = mode_name(c.target);
    let raw = sut::decode(&c.map.render());
    // model after the whole history
    let mut model = DiffSpec::default();
    for op in &c.ops {
        apply_model(&mut model, op);
    }
    // convert explicitly with the final mods so that all three clients see the same map
    let final_mods = model
        .mods
        .as_ref()
        .map_or_else(|| GameMods::from(0u32), ModsSpec::build);
    let map = match raw.convert(MODES[c.target], &final_mods) {
        Ok(m) => m,
        Err(_) => {
            st.probe("skipped_invalid_target");
            return None;
        }
    };

    // client A: Performance's own setters, in history order
    let dig_a = match guard(|| {
        let mut p = Performance::new(&map);
        for op in &c.ops {
            p = apply_perf(p, op);
        }
        sut::dig_pa(&c.score.apply(p).calculate())
    }) {
        Ok(s) => s,
        Err(p) => format!("PANIC {}", panic_site(&p)),
    };
    // client B: Difficulty's setters, in history order
    let d_b = match guard(|| {
        let mut d = Difficulty::new();
        for op in &c.ops {
            d = apply_diff(d, op);
        }
        d
    }) {
        Ok(d) => d,
        Err(p) => {
            return Some(Violation::new(
                format!("C18/{mode}/panic-in-difficulty-setter@{}", panic_site(&p)),
                p,
            ))
        }
    };
    st.ops += 2 * c.ops.len() as u64;
    for op in &c.ops {
        st.fault(&format!("setter_{}", op.kind()));
    }
    let dig_b = calc(&map, d_b.clone(), &c.score);
    // client C: record model
    let dig_c = calc(&map, model.build(), &c.score);

    if dig_a != dig_b {
        let f = crate::grad::first_diff_field(&dig_a, &dig_b);
        // which setter is responsible? replay prefixes of the history
        let culprit = c
            .ops
            .iter()
            .rev()
            .map(SOp::kind)
            .next()
            .unwrap_or("none");
        let _ = culprit;
        return Some(Violation::new(
            format!("C18/{mode}/perf-setters-vs-difficulty@{f}"),
            format!("own setters: {dig_a} | via Difficulty: {dig_b}"),
        ));
    }
    if dig_b != dig_c {
        let f = crate::grad::first_diff_field(&dig_b, &dig_c);
        return Some(Violation::new(
            format!("C18/{mode}/history-vs-record-model@{f}"),
            format!("history order: {dig_b} | last-value record: {dig_c}"),
        ));
    }

    // inspectable form == record model (clamps!)
    let insp = d_b.clone().inspect();
    let exp = model_inspect(&model);
    if insp != exp && format!("{insp:?}") != format!("{exp:?}") {
        let f = crate::grad::first_diff_field(&format!("{insp:?}"), &format!("{exp:?}"));
        return Some(Violation::new(
            format!("C18/inspect-vs-model@{f}"),
            format!("inspect(): {insp:?} | model: {exp:?}"),
        ));
    }
    // round trip
    let rt = d_b.clone().inspect().into_difficulty();
    if rt != d_b {
        return Some(Violation::new(
            "C18/inspect-round-trip",
            format!("{:?} != {:?}", rt, d_b),
        ));
    }
    let dig_rt = calc(&map, rt, &c.score);
    if dig_rt != dig_b {
        return Some(Violation::new(
            format!("C18/{mode}/inspect-round-trip-result"),
            format!("{dig_rt} != {dig_b}"),
        ));
    }
    // out-of-range values written into the public inspectable form are clamped on the way back
    if let Some((field, v)) = &c.inspect_mutation {
        st.fault("inspect_field_mutation");
        let mut i2 = d_b.clone().inspect();
        let mut e2 = exp.clone();
        let v32 = *v as f32;
        match field.as_str() {
            "clock_rate" => {
                i2.clock_rate = Some(*v);
                e2.clock_rate = Some(clamp_rate(*v));
            }
            "ar" => {
                i2.ar = Some(ModsDependent::new(v32));
                e2.ar = Some(ModsDependent::new(clamp_attr(v32)));
            }
            "cs" => {
                i2.cs = Some(ModsDependent::new(v32));
                e2.cs = Some(ModsDependent::new(clamp_attr(v32)));
            }
            "hp" => {
                i2.hp = Some(ModsDependent::new(v32));
                e2.hp = Some(ModsDependent::new(clamp_attr(v32)));
            }
            _ => {
                i2.od = Some(ModsDependent::new(v32));
                e2.od = Some(ModsDependent::new(clamp_attr(v32)));
            }
        }
        let back = match guard(|| i2.into_difficulty().inspect()) {
            Ok(b) => b,
            Err(p) => {
                return Some(Violation::new(
                    format!("C18/panic-in-into_difficulty@{}", panic_site(&p)),
                    p,
                ))
            }
        };
        if back != e2 && format!("{back:?}") != format!("{e2:?}") {
            return Some(Violation::new(
                format!("C18/inspect-mutation-not-clamped@{field}"),
                format!("wrote {field}={v}; got back {back:?}; expected {e2:?}"),
            ));
        }
    }

    // setters documented as irrelevant for the mode leave the result untouched
    let mut irrelevant: Vec<(&str, DiffSpec)> = Vec::new();
    let without = |f: &dyn Fn(&mut DiffSpec)| {
        let mut m = model.clone();
        f(&mut m);
        m
    };
    if matches!(c.target, 1 | 3) {
        if model.ar.is_some() {
            irrelevant.push(("ar", without(&|m| m.ar = None)));
        }
        if model.cs.is_some() {
            irrelevant.push(("cs", without(&|m| m.cs = None)));
        }
    }
    if c.target != 2 && model.hr_offsets.is_some() {
        irrelevant.push(("hardrock_offsets", without(&|m| m.hr_offsets = None)));
    }
    if matches!(c.target, 1 | 2) && model.lazer.is_some() {
        irrelevant.push(("lazer", without(&|m| m.lazer = None)));
    }
    for (name, m) in irrelevant {
        st.probe("irrelevant_setter_checked");
        let dig = calc(&map, m.build(), &c.score);
        if dig != dig_c {
            let f = crate::grad::first_diff_field(&dig, &dig_c);
            return Some(Violation::new(
                format!("C18/{mode}/irrelevant-setter-{name}-changes-result@{f}"),
                format!("without {name}: {dig} | with: {dig_c}"),
            ));
        }
    }
    // score-side setters documented as irrelevant
    let mut s_irrelevant: Vec<(&str, ScoreSpec)> = Vec::new();
    let s_without = |f: &dyn Fn(&mut ScoreSpec)| {
        let mut s = c.score.clone();
        f(&mut s);
        s
    };
    if c.score.state.is_none() {
        if c.target == 3 && c.score.combo.is_some() {
            s_irrelevant.push(("combo", s_without(&|s| s.combo = None)));
        }
        if c.target == 1 && c.score.n50.is_some() {
            s_irrelevant.push(("n50", s_without(&|s| s.n50 = None)));
        }
        if matches!(c.target, 0 | 1) && c.score.n_katu.is_some() {
            s_irrelevant.push(("n_katu", s_without(&|s| s.n_katu = None)));
        }
        if c.target != 3 && c.score.n_geki.is_some() {
            s_irrelevant.push(("n_geki", s_without(&|s| s.n_geki = None)));
        }
        if c.target != 0 {
            if c.score.large_ticks.is_some() {
                s_irrelevant.push(("large_tick_hits", s_without(&|s| s.large_ticks = None)));
            }
            if c.score.small_ticks.is_some() {
                s_irrelevant.push(("small_tick_hits", s_without(&|s| s.small_ticks = None)));
            }
            if c.score.slider_ends.is_some() {
                s_irrelevant.push(("slider_end_hits", s_without(&|s| s.slider_ends = None)));
            }
        }
        if c.target == 2 && c.score.best_case.is_some() {
            s_irrelevant.push(("hitresult_priority", s_without(&|s| s.best_case = None)));
        }
    }
    for (name, s) in s_irrelevant {
        st.probe("irrelevant_setter_checked");
        let dig = calc(&map, model.build(), &s);
        if dig != dig_c {
            let f = crate::grad::first_diff_field(&dig, &dig_c);
            return Some(Violation::new(
                format!("C18/{mode}/irrelevant-setter-{name}-changes-result@{f}"),
                format!("without {name}: {dig} | with: {dig_c}"),
            ));
        }
    }
    if dig_a.starts_with("PANIC") {
        st.probe("all_clients_panic_alike");
    }
    None
}

fn simpler(c: &BuilderCase) -> Vec<BuilderCase> {
    let mut out = Vec::new();
    for i in (0..c.ops.len()).rev() {
        let mut x = c.clone();
        x.ops.remove(i);
        out.push(x);
    }
    if c.inspect_mutation.is_some() {
        let mut x = c.clone();
        x.inspect_mutation = None;
        out.push(x);
    }
    if c.score != ScoreSpec::default() {
        let mut x = c.clone();
        x.score = ScoreSpec::default();
        out.push(x);
    }
    for m in c.map.simpler() {
        let mut x = c.clone();
        x.map = m;
        out.push(x);
    }
    for (i, op) in c.ops.iter().enumerate() {
        match op {
            SOp::Replace(d) => {
                for s in d.simpler() {
                    let mut x = c.clone();
                    x.ops[i] = SOp::Replace(s);
                    out.push(x);
                }
            }
            SOp::Mods(m) => {
                for s in m.simpler() {
                    let mut x = c.clone();
                    x.ops[i] = SOp::Mods(s);
                    out.push(x);
                }
            }
            _ => {}
        }
    }
    out
}

pub struct C18Engine;

impl Engine for C18Engine {
    type Case = BuilderCase;
    fn name() -> &'static str {
        "c18"
    }
    fn gen(rng: &mut Rng, tier: Tier) -> BuilderCase {
        gen_case(rng, tier)
    }
    fn exec(case: &BuilderCase, stats: &mut Stats) -> Option<Violation> {
        exec(case, stats)
    }
    fn simpler(case: &BuilderCase) -> Vec<BuilderCase> {
        simpler(case)
    }
    fn to_json(c: &BuilderCase) -> Value {
        json!({
            "map": c.map.to_json(), "target": c.target,
            "ops": c.ops.iter().map(SOp::to_json).collect::<Vec<_>>(),
            "score": c.score.to_json(),
            "inspect_mutation": c.inspect_mutation.as_ref().map(|(f, v)| json!([f, jf(*v)])),
        })
    }
    fn from_json(v: &Value) -> BuilderCase {
        BuilderCase {
            map: MapText::from_json(&v["map"]),
            target: v["target"].as_u64().unwrap_or(0) as usize,
            ops: v["ops"]
                .as_array()
                .map(|a| a.iter().map(SOp::from_json).collect())
                .unwrap_or_default(),
            score: ScoreSpec::from_json(&v["score"]),
            inspect_mutation: v["inspect_mutation"]
                .as_array()
                .map(|a| (a[0].as_str().unwrap_or("ar").to_owned(), hexf(&a[1]))),
        }
    }
    fn signature(c: &BuilderCase) -> u64 {
        let kinds: Vec<&str> = c.ops.iter().map(SOp::kind).collect();
        fnv(format!("{}|{:?}|{:?}", c.target, kinds, c.inspect_mutation.as_ref().map(|m| &m.0)).as_bytes())
    }
    fn nontrivial(c: &BuilderCase) -> bool {
        c.ops.len() >= 2
    }
}

//! Serializable descriptions of everything a run feeds into rosu-pp besides
//! the map text: mods, difficulty settings, score states. A replay file stores
//! these specs, never opaque library values, so that a replay is a pure
//! function of the file and the code.

use rosu_map::section::general::GameMode;
use rosu_mods::{GameMod, GameMods as GameModsLazer, GameModsIntermode, GameModsLegacy};
use rosu_pp::{
    any::{HitResultPriority, ScoreState},
    Difficulty, GameMods, Performance,
};
use serde_json::{json, Value};

use crate::prng::Rng;

pub const MODES: [GameMode; 4] = [
    GameMode::Osu,
    GameMode::Taiko,
    GameMode::Catch,
    GameMode::Mania,
];

pub fn mode_idx(m: GameMode) -> usize {
    match m {
        GameMode::Osu => 0,
        GameMode::Taiko => 1,
        GameMode::Catch => 2,
        GameMode::Mania => 3,
    }
}

pub fn mode_name(m: usize) -> &'static str {
    ["osu", "taiko", "catch", "mania"][m]
}

// ---------------------------------------------------------------- mods

#[derive(Clone, Debug, PartialEq)]
pub enum ModsSpec {
    /// `u32` given straight to `.mods(bits)`.
    Bits(u32),
    /// `GameModsLegacy::from_bits`.
    Legacy(u32),
    /// `GameModsIntermode` built from acronyms, passed owned.
    Intermode(String),
    /// `&GameModsIntermode`.
    IntermodeRef(String),
    /// lazer mods for `mode` built from acronyms, then settings applied.
    Lazer {
        acronyms: String,
        mode: usize,
        settings: LazerSettings,
    },
}

#[derive(Clone, Debug, Default, PartialEq)]
pub struct LazerSettings {
    pub rate: Option<f64>,
    pub da_ar: Option<f64>,
    pub da_cs: Option<f64>,
    pub da_hp: Option<f64>,
    pub da_od: Option<f64>,
    pub da_scroll: Option<f64>,
    pub da_hr_offsets: Option<bool>,
    pub seed: Option<f64>,
    pub reflection: Option<String>,
    pub no_slider_head_acc: Option<bool>,
}

fn of64(v: &Value) -> Option<f64> {
    match v {
        Value::Null => None,
        Value::String(s) => Some(f64::from_bits(u64::from_str_radix(s, 16).ok()?)),
        other => other.as_f64(),
    }
}

/// f64 → JSON: plain number when it round-trips through JSON text, hex bits
/// otherwise (inf, NaN, -0.0).
pub fn jf(x: f64) -> Value {
    if x.is_finite() && !(x == 0.0 && x.is_sign_negative()) {
        json!(x)
    } else {
        json!(format!("{:016x}", x.to_bits()))
    }
}

pub fn jof(x: Option<f64>) -> Value {
    x.map_or(Value::Null, jf)
}

impl LazerSettings {
    pub fn to_json(&self) -> Value {
        json!({
            "rate": jof(self.rate), "da_ar": jof(self.da_ar), "da_cs": jof(self.da_cs),
            "da_hp": jof(self.da_hp), "da_od": jof(self.da_od), "da_scroll": jof(self.da_scroll),
            "da_hr_offsets": self.da_hr_offsets, "seed": jof(self.seed),
            "reflection": self.reflection, "no_slider_head_acc": self.no_slider_head_acc,
        })
    }

    pub fn from_json(v: &Value) -> Self {
        Self {
            rate: of64(&v["rate"]),
            da_ar: of64(&v["da_ar"]),
            da_cs: of64(&v["da_cs"]),
            da_hp: of64(&v["da_hp"]),
            da_od: of64(&v["da_od"]),
            da_scroll: of64(&v["da_scroll"]),
            da_hr_offsets: v["da_hr_offsets"].as_bool(),
            seed: of64(&v["seed"]),
            reflection: v["reflection"].as_str().map(str::to_owned),
            no_slider_head_acc: v["no_slider_head_acc"].as_bool(),
        }
    }
}

pub fn build_lazer(acronyms: &str, mode: usize, s: &LazerSettings) -> GameModsLazer {
    let inter = GameModsIntermode::from_acronyms(acronyms);
    let mut mods = inter.with_mode(match mode {
        0 => rosu_mods::GameMode::Osu,
        1 => rosu_mods::GameMode::Taiko,
        2 => rosu_mods::GameMode::Catch,
        _ => rosu_mods::GameMode::Mania,
    });
    for m in mods.iter_mut() {
        match m {
            GameMod::DoubleTimeOsu(x) => x.speed_change = s.rate,
            GameMod::DoubleTimeTaiko(x) => x.speed_change = s.rate,
            GameMod::DoubleTimeCatch(x) => x.speed_change = s.rate,
            GameMod::DoubleTimeMania(x) => x.speed_change = s.rate,
            GameMod::HalfTimeOsu(x) => x.speed_change = s.rate,
            GameMod::HalfTimeTaiko(x) => x.speed_change = s.rate,
            GameMod::HalfTimeCatch(x) => x.speed_change = s.rate,
            GameMod::HalfTimeMania(x) => x.speed_change = s.rate,
            GameMod::NightcoreOsu(x) => x.speed_change = s.rate,
            GameMod::NightcoreTaiko(x) => x.speed_change = s.rate,
            GameMod::NightcoreCatch(x) => x.speed_change = s.rate,
            GameMod::NightcoreMania(x) => x.speed_change = s.rate,
            GameMod::DaycoreOsu(x) => x.speed_change = s.rate,
            GameMod::DaycoreTaiko(x) => x.speed_change = s.rate,
            GameMod::DaycoreCatch(x) => x.speed_change = s.rate,
            GameMod::DaycoreMania(x) => x.speed_change = s.rate,
            GameMod::DifficultyAdjustOsu(x) => {
                x.approach_rate = s.da_ar;
                x.circle_size = s.da_cs;
                x.drain_rate = s.da_hp;
                x.overall_difficulty = s.da_od;
            }
            GameMod::DifficultyAdjustTaiko(x) => {
                x.scroll_speed = s.da_scroll;
                x.drain_rate = s.da_hp;
                x.overall_difficulty = s.da_od;
            }
            GameMod::DifficultyAdjustCatch(x) => {
                x.approach_rate = s.da_ar;
                x.circle_size = s.da_cs;
                x.drain_rate = s.da_hp;
                x.overall_difficulty = s.da_od;
                x.hard_rock_offsets = s.da_hr_offsets;
            }
            GameMod::DifficultyAdjustMania(x) => {
                x.drain_rate = s.da_hp;
                x.overall_difficulty = s.da_od;
            }
            GameMod::RandomTaiko(x) => x.seed = s.seed,
            GameMod::RandomMania(x) => x.seed = s.seed,
            GameMod::MirrorOsu(x) => x.reflection = s.reflection.clone(),
            GameMod::ClassicOsu(x) => x.no_slider_head_accuracy = s.no_slider_head_acc,
            _ => {}
        }
    }
    mods
}

impl ModsSpec {
    pub fn none() -> Self {
        ModsSpec::Bits(0)
    }

    pub fn build(&self) -> GameMods {
        match self {
            ModsSpec::Bits(b) => (*b).into(),
            ModsSpec::Legacy(b) => GameModsLegacy::from_bits(*b).into(),
            ModsSpec::Intermode(a) => GameModsIntermode::from_acronyms(a).into(),
            ModsSpec::IntermodeRef(a) => (&GameModsIntermode::from_acronyms(a)).into(),
            ModsSpec::Lazer {
                acronyms,
                mode,
                settings,
            } => build_lazer(acronyms, *mode, settings).into(),
        }
    }

    pub fn apply_diff(&self, d: Difficulty) -> Difficulty {
        match self {
            ModsSpec::Bits(b) => d.mods(*b),
            other => d.mods(other.build()),
        }
    }

    pub fn apply_perf<'a>(&self, p: Performance<'a>) -> Performance<'a> {
        match self {
            ModsSpec::Bits(b) => p.mods(*b),
            other => p.mods(other.build()),
        }
    }

    pub fn to_json(&self) -> Value {
        match self {
            ModsSpec::Bits(b) => json!({"k":"bits","v":b}),
            ModsSpec::Legacy(b) => json!({"k":"legacy","v":b}),
            ModsSpec::Intermode(a) => json!({"k":"inter","v":a}),
            ModsSpec::IntermodeRef(a) => json!({"k":"inter_ref","v":a}),
            ModsSpec::Lazer {
                acronyms,
                mode,
                settings,
            } => json!({"k":"lazer","v":acronyms,"mode":mode,"settings":settings.to_json()}),
        }
    }

    pub fn from_json(v: &Value) -> Self {
        match v["k"].as_str().unwrap_or("bits") {
            "legacy" => ModsSpec::Legacy(v["v"].as_u64().unwrap_or(0) as u32),
            "inter" => ModsSpec::Intermode(v["v"].as_str().unwrap_or("").to_owned()),
            "inter_ref" => ModsSpec::IntermodeRef(v["v"].as_str().unwrap_or("").to_owned()),
            "lazer" => ModsSpec::Lazer {
                acronyms: v["v"].as_str().unwrap_or("").to_owned(),
                mode: v["mode"].as_u64().unwrap_or(0) as usize,
                settings: LazerSettings::from_json(&v["settings"]),
            },
            _ => ModsSpec::Bits(v["v"].as_u64().unwrap_or(0) as u32),
        }
    }

    /// Simplifications tried by the minimiser.
    pub fn simpler(&self) -> Vec<ModsSpec> {
        let mut out = Vec::new();
        if *self != ModsSpec::none() {
            out.push(ModsSpec::none());
        }
        match self {
            ModsSpec::Bits(b) | ModsSpec::Legacy(b) => {
                for i in 0..32 {
                    if b & (1 << i) != 0 {
                        out.push(ModsSpec::Bits(b & !(1 << i)));
                    }
                }
            }
            ModsSpec::Intermode(a) | ModsSpec::IntermodeRef(a) => {
                let n = a.len() / 2;
                for i in 0..n {
                    let mut s = a.clone();
                    s.replace_range(i * 2..i * 2 + 2, "");
                    out.push(ModsSpec::Intermode(s));
                }
            }
            ModsSpec::Lazer {
                acronyms,
                mode,
                settings,
            } => {
                let n = acronyms.len() / 2;
                for i in 0..n {
                    let mut s = acronyms.clone();
                    s.replace_range(i * 2..i * 2 + 2, "");
                    out.push(ModsSpec::Lazer {
                        acronyms: s,
                        mode: *mode,
                        settings: settings.clone(),
                    });
                }
                if *settings != LazerSettings::default() {
                    out.push(ModsSpec::Lazer {
                        acronyms: acronyms.clone(),
                        mode: *mode,
                        settings: LazerSettings::default(),
                    });
                }
            }
        }
        out
    }
}

pub const NF: u32 = 1;
pub const EZ: u32 = 2;
pub const TD: u32 = 4;
pub const HD: u32 = 8;
pub const HR: u32 = 16;
pub const DT: u32 = 64;
pub const RX: u32 = 128;
pub const HT: u32 = 256;
pub const NC: u32 = 512 | 64;
pub const FL: u32 = 1024;
pub const SO: u32 = 4096;
pub const AP: u32 = 8192;
pub const KEY_BITS: [u32; 9] = [
    67_108_864,  // 1K
    268_435_456, // 2K
    134_217_728, // 3K
    32768,       // 4K
    65536,       // 5K
    131_072,     // 6K
    262_144,     // 7K
    524_288,     // 8K
    16_777_216,  // 9K
];
pub const FI: u32 = 1_048_576;
pub const MR: u32 = 1_073_741_824;

fn gen_legacy_bits(rng: &mut Rng, mode: usize) -> u32 {
    let mut b = 0;
    if rng.chance(0.35) {
        return 0;
    }
    for (bit, p) in [
        (NF, 0.1),
        (TD, 0.08),
        (HD, 0.3),
        (FL, 0.25),
        (SO, 0.1),
        (RX, 0.12),
        (AP, 0.05),
        (FI, 0.05),
        (MR, 0.08),
    ] {
        if rng.chance(p) {
            b |= bit;
        }
    }
    match rng.below(5) {
        0 => b |= EZ,
        1 | 2 => b |= HR,
        _ => {}
    }
    match rng.below(7) {
        0 | 1 => b |= DT,
        2 => b |= NC,
        3 => b |= HT,
        _ => {}
    }
    // every key count is a separate set of code paths in the mania converter
    if mode == 3 && rng.chance(0.6) {
        b |= *rng.pick(&KEY_BITS);
    }
    b
}

fn gen_acronyms(rng: &mut Rng, mode: usize, lazer: bool) -> String {
    let mut s = String::new();
    if rng.chance(0.25) {
        return s;
    }
    for (a, p) in [("HD", 0.3), ("FL", 0.25), ("NF", 0.1), ("SO", 0.1), ("RX", 0.1)] {
        if rng.chance(p) {
            s.push_str(a);
        }
    }
    let da = lazer && rng.chance(0.35);
    if da {
        s.push_str("DA");
    } else {
        match rng.below(5) {
            0 => s.push_str("EZ"),
            1 | 2 => s.push_str("HR"),
            _ => {}
        }
    }
    match rng.below(9) {
        0 | 1 => s.push_str("DT"),
        2 => s.push_str("NC"),
        3 => s.push_str("HT"),
        4 if lazer => s.push_str("DC"),
        _ => {}
    }
    if rng.chance(0.25) {
        s.push_str("CL");
    }
    if lazer && (mode == 0 || mode == 2 || mode == 3) && rng.chance(0.2) {
        s.push_str("MR");
    }
    if lazer && (mode == 1 || mode == 3) && rng.chance(0.3) {
        s.push_str("RD");
    }
    if mode == 3 {
        if rng.chance(0.6) {
            s.push_str(*rng.pick(&["1K", "2K", "3K", "4K", "5K", "6K", "7K", "8K", "9K"]));
        }
        if lazer && rng.chance(0.2) {
            s.push_str("HO");
        }
        if lazer && rng.chance(0.2) {
            s.push_str("IN");
        }
    }
    s
}

fn gen_rate(rng: &mut Rng) -> f64 {
    match rng.below(12) {
        0 | 1 => *rng.pick(&[0.5, 0.75, 1.0, 1.25, 1.5, 2.0]),
        2 | 3 => *rng.pick(&[0.5075, 0.8, 1.1, 1.3, 1.7, 0.99]),
        // the documented range is [0.01, 100] (under Miri a rate of 0.01 means 100x the strain
        // sections to interpret, so the interpreter only sees the moderate ones)
        4 => {
            if cfg!(miri) {
                *rng.pick(&[0.5, 0.75, 1.5, 2.0, 1.0, 1.25, 0.9])
            } else {
                *rng.pick(&[0.01, 0.05, 0.1, 0.25, 3.0, 10.0, 100.0])
            }
        }
        _ => (rng.frange(0.5, 2.0) * 100.0).round() / 100.0,
    }
}

fn gen_attr(rng: &mut Rng) -> f64 {
    match rng.below(10) {
        0 => *rng.pick(&[0.0, 10.0, 11.0, 5.0]),
        1 => (rng.frange(-2.0, 12.0) * 10.0).round() / 10.0,
        // the whole documented range of the overrides is [-20, 20]
        2 => (rng.frange(-20.0, 20.0) * 10.0).round() / 10.0,
        3 => *rng.pick(&[-20.0, 20.0, 12.2, 13.0, 15.5, 19.9, -10.0, -0.1]),
        _ => (rng.frange(0.0, 10.0) * 10.0).round() / 10.0,
    }
}

pub fn gen_mods(rng: &mut Rng, mode: usize) -> ModsSpec {
    match rng.weighted(&[30, 10, 12, 8, 40]) {
        0 => ModsSpec::Bits(gen_legacy_bits(rng, mode)),
        1 => ModsSpec::Legacy(gen_legacy_bits(rng, mode)),
        2 => ModsSpec::Intermode(gen_acronyms(rng, mode, false)),
        3 => ModsSpec::IntermodeRef(gen_acronyms(rng, mode, false)),
        _ => {
            let acronyms = gen_acronyms(rng, mode, true);
            let mut s = LazerSettings::default();
            if rng.chance(0.6) {
                s.rate = Some(gen_rate(rng));
            }
            if acronyms.contains("DA") {
                if rng.chance(0.6) {
                    s.da_ar = Some(gen_attr(rng));
                }
                if rng.chance(0.6) {
                    s.da_cs = Some(gen_attr(rng));
                }
                if rng.chance(0.4) {
                    s.da_hp = Some(gen_attr(rng));
                }
                if rng.chance(0.6) {
                    s.da_od = Some(gen_attr(rng));
                }
                if rng.chance(0.4) {
                    s.da_scroll = Some(rng.frange(0.5, 3.0));
                }
                if rng.chance(0.4) {
                    s.da_hr_offsets = Some(rng.chance(0.5));
                }
            }
            if acronyms.contains("RD") && rng.chance(0.85) {
                s.seed = Some(rng.range(0, 100_000) as f64);
            }
            if acronyms.contains("MR") && rng.chance(0.6) {
                s.reflection = Some((*rng.pick(&["0", "1", "2"])).to_owned());
            }
            if acronyms.contains("CL") && rng.chance(0.6) {
                s.no_slider_head_acc = Some(rng.chance(0.5));
            }
            ModsSpec::Lazer {
                acronyms,
                mode,
                settings: s,
            }
        }
    }
}

// ---------------------------------------------------------------- difficulty

#[derive(Clone, Debug, Default, PartialEq)]
pub struct DiffSpec {
    pub mods: Option<ModsSpec>,
    pub clock_rate: Option<f64>,
    pub ar: Option<(f32, bool)>,
    pub cs: Option<(f32, bool)>,
    pub hp: Option<(f32, bool)>,
    pub od: Option<(f32, bool)>,
    pub hr_offsets: Option<bool>,
    pub lazer: Option<bool>,
    pub passed: Option<u32>,
}

fn jattr(a: Option<(f32, bool)>) -> Value {
    match a {
        None => Value::Null,
        Some((v, w)) => json!([jf(f64::from(v)), w]),
    }
}

fn attr_from(v: &Value) -> Option<(f32, bool)> {
    let a = v.as_array()?;
    Some((of64(&a[0])? as f32, a[1].as_bool()?))
}

impl DiffSpec {
    pub fn build(&self) -> Difficulty {
        let mut d = Difficulty::new();
        if let Some(m) = &self.mods {
            d = m.apply_diff(d);
        }
        if let Some(r) = self.clock_rate {
            d = d.clock_rate(r);
        }
        if let Some((v, w)) = self.ar {
            d = d.ar(v, w);
        }
        if let Some((v, w)) = self.cs {
            d = d.cs(v, w);
        }
        if let Some((v, w)) = self.hp {
            d = d.hp(v, w);
        }
        if let Some((v, w)) = self.od {
            d = d.od(v, w);
        }
        if let Some(b) = self.hr_offsets {
            d = d.hardrock_offsets(b);
        }
        if let Some(b) = self.lazer {
            d = d.lazer(b);
        }
        if let Some(n) = self.passed {
            d = d.passed_objects(n);
        }
        d
    }

    pub fn with_passed(&self, n: u32) -> Difficulty {
        self.build().passed_objects(n)
    }

    pub fn to_json(&self) -> Value {
        json!({
            "mods": self.mods.as_ref().map(ModsSpec::to_json),
            "clock_rate": jof(self.clock_rate),
            "ar": jattr(self.ar), "cs": jattr(self.cs), "hp": jattr(self.hp), "od": jattr(self.od),
            "hr_offsets": self.hr_offsets, "lazer": self.lazer, "passed": self.passed,
        })
    }

    pub fn from_json(v: &Value) -> Self {
        Self {
            mods: if v["mods"].is_null() {
                None
            } else {
                Some(ModsSpec::from_json(&v["mods"]))
            },
            clock_rate: of64(&v["clock_rate"]),
            ar: attr_from(&v["ar"]),
            cs: attr_from(&v["cs"]),
            hp: attr_from(&v["hp"]),
            od: attr_from(&v["od"]),
            hr_offsets: v["hr_offsets"].as_bool(),
            lazer: v["lazer"].as_bool(),
            passed: v["passed"].as_u64().map(|n| n as u32),
        }
    }

    pub fn simpler(&self) -> Vec<DiffSpec> {
        let mut out = Vec::new();
        if *self != DiffSpec::default() {
            out.push(DiffSpec {
                passed: self.passed,
                ..DiffSpec::default()
            });
        }
        macro_rules! drop_field {
            ($f:ident) => {
                if self.$f.is_some() {
                    let mut c = self.clone();
                    c.$f = None;
                    out.push(c);
                }
            };
        }
        drop_field!(mods);
        drop_field!(clock_rate);
        drop_field!(ar);
        drop_field!(cs);
        drop_field!(hp);
        drop_field!(od);
        drop_field!(hr_offsets);
        drop_field!(lazer);
        if let Some(m) = &self.mods {
            for s in m.simpler() {
                let mut c = self.clone();
                c.mods = Some(s);
                out.push(c);
            }
        }
        if let Some(r) = self.clock_rate {
            for cand in [1.5, 0.75, 2.0, 0.5] {
                if cand != r {
                    let mut c = self.clone();
                    c.clock_rate = Some(cand);
                    out.push(c);
                }
            }
        }
        out
    }
}

fn gen_override(rng: &mut Rng) -> (f32, bool) {
    (gen_attr(rng) as f32, rng.chance(0.4))
}

/// Settings inside the documented ranges (the domain of C02/C03/C05).
pub fn gen_diff(rng: &mut Rng, mode: usize) -> DiffSpec {
    let mut d = DiffSpec::default();
    if rng.chance(0.15) {
        return d;
    }
    if rng.chance(0.75) {
        d.mods = Some(gen_mods(rng, mode));
    }
    if rng.chance(0.35) {
        d.clock_rate = Some(gen_rate(rng));
    }
    if rng.chance(0.2) {
        d.ar = Some(gen_override(rng));
    }
    if rng.chance(0.2) {
        d.cs = Some(gen_override(rng));
    }
    if rng.chance(0.12) {
        d.hp = Some(gen_override(rng));
    }
    if rng.chance(0.2) {
        d.od = Some(gen_override(rng));
    }
    if rng.chance(0.12) {
        d.hr_offsets = Some(rng.chance(0.5));
    }
    if rng.chance(0.3) {
        d.lazer = Some(rng.chance(0.5));
    }
    d
}

// ---------------------------------------------------------------- score state

#[derive(Clone, Debug, Default, PartialEq, Eq)]
pub struct StateSpec(pub [u32; 10]);

impl StateSpec {
    pub fn build(&self) -> ScoreState {
        let a = self.0;
        ScoreState {
            max_combo: a[0],
            osu_large_tick_hits: a[1],
            osu_small_tick_hits: a[2],
            slider_end_hits: a[3],
            n_geki: a[4],
            n_katu: a[5],
            n300: a[6],
            n100: a[7],
            n50: a[8],
            misses: a[9],
        }
    }

    pub fn to_json(&self) -> Value {
        json!(self.0.to_vec())
    }

    pub fn from_json(v: &Value) -> Self {
        let mut a = [0u32; 10];
        if let Some(arr) = v.as_array() {
            for (i, x) in arr.iter().take(10).enumerate() {
                a[i] = x.as_u64().unwrap_or(0) as u32;
            }
        }
        StateSpec(a)
    }

    pub fn simpler(&self) -> Vec<StateSpec> {
        let mut out = Vec::new();
        if self.0 != [0; 10] {
            out.push(StateSpec([0; 10]));
        }
        for i in 0..10 {
            if self.0[i] != 0 {
                let mut a = self.0;
                a[i] = 0;
                out.push(StateSpec(a));
                if self.0[i] > 1 {
                    let mut a = self.0;
                    a[i] /= 2;
                    out.push(StateSpec(a));
                }
            }
        }
        out
    }
}

/// Score state with counts up to a small multiple of `n` (object count).
pub fn gen_state(rng: &mut Rng, n: u32) -> StateSpec {
    let cap = 4 * n + 4;
    let mut a = [0u32; 10];
    match rng.below(6) {
        0 => {} // all zero
        1 => {
            // all miss
            a[9] = n;
        }
        2 => {
            // roughly consistent with n
            let mut rest = n;
            for i in [6usize, 7, 8, 9, 4, 5] {
                let x = rng.below(u64::from(rest) + 1) as u32;
                a[i] = x;
                rest -= x;
            }
            a[6] += rest;
            a[0] = rng.below(u64::from(2 * n) + 2) as u32;
            a[1] = rng.below(u64::from(n) + 1) as u32;
            a[2] = rng.below(u64::from(n) + 1) as u32;
            a[3] = rng.below(u64::from(n) + 1) as u32;
        }
        3 => {
            // too small
            for x in a.iter_mut() {
                *x = rng.below(3) as u32;
            }
        }
        _ => {
            for x in a.iter_mut() {
                if rng.chance(0.7) {
                    *x = rng.below(u64::from(cap) + 1) as u32;
                }
            }
        }
    }
    StateSpec(a)
}

// ---------------------------------------------------------------- performance score spec

#[derive(Clone, Debug, Default, PartialEq)]
pub struct ScoreSpec {
    pub state: Option<StateSpec>,
    pub accuracy: Option<f64>,
    pub combo: Option<u32>,
    pub misses: Option<u32>,
    pub n300: Option<u32>,
    pub n100: Option<u32>,
    pub n50: Option<u32>,
    pub n_katu: Option<u32>,
    pub n_geki: Option<u32>,
    pub large_ticks: Option<u32>,
    pub small_ticks: Option<u32>,
    pub slider_ends: Option<u32>,
    pub best_case: Option<bool>,
}

fn ju(x: Option<u32>) -> Value {
    x.map_or(Value::Null, |v| json!(v))
}
fn ou(v: &Value) -> Option<u32> {
    v.as_u64().map(|x| x as u32)
}

impl ScoreSpec {
    pub fn apply<'a>(&self, mut p: Performance<'a>) -> Performance<'a> {
        if let Some(s) = &self.state {
            p = p.state(s.build());
        }
        if let Some(a) = self.accuracy {
            p = p.accuracy(a);
        }
        if let Some(x) = self.combo {
            p = p.combo(x);
        }
        if let Some(x) = self.misses {
            p = p.misses(x);
        }
        if let Some(x) = self.n300 {
            p = p.n300(x);
        }
        if let Some(x) = self.n100 {
            p = p.n100(x);
        }
        if let Some(x) = self.n50 {
            p = p.n50(x);
        }
        if let Some(x) = self.n_katu {
            p = p.n_katu(x);
        }
        if let Some(x) = self.n_geki {
            p = p.n_geki(x);
        }
        if let Some(x) = self.large_ticks {
            p = p.large_tick_hits(x);
        }
        if let Some(x) = self.small_ticks {
            p = p.small_tick_hits(x);
        }
        if let Some(x) = self.slider_ends {
            p = p.slider_end_hits(x);
        }
        if let Some(b) = self.best_case {
            p = p.hitresult_priority(if b {
                HitResultPriority::BestCase
            } else {
                HitResultPriority::WorstCase
            });
        }
        p
    }

    pub fn to_json(&self) -> Value {
        json!({
            "state": self.state.as_ref().map(StateSpec::to_json),
            "accuracy": jof(self.accuracy), "combo": ju(self.combo), "misses": ju(self.misses),
            "n300": ju(self.n300), "n100": ju(self.n100), "n50": ju(self.n50),
            "n_katu": ju(self.n_katu), "n_geki": ju(self.n_geki),
            "large_ticks": ju(self.large_ticks), "small_ticks": ju(self.small_ticks),
            "slider_ends": ju(self.slider_ends), "best_case": self.best_case,
        })
    }

    pub fn from_json(v: &Value) -> Self {
        Self {
            state: if v["state"].is_null() {
                None
            } else {
                Some(StateSpec::from_json(&v["state"]))
            },
            accuracy: of64(&v["accuracy"]),
            combo: ou(&v["combo"]),
            misses: ou(&v["misses"]),
            n300: ou(&v["n300"]),
            n100: ou(&v["n100"]),
            n50: ou(&v["n50"]),
            n_katu: ou(&v["n_katu"]),
            n_geki: ou(&v["n_geki"]),
            large_ticks: ou(&v["large_ticks"]),
            small_ticks: ou(&v["small_ticks"]),
            slider_ends: ou(&v["slider_ends"]),
            best_case: v["best_case"].as_bool(),
        }
    }
}

pub fn gen_score(rng: &mut Rng, n: u32) -> ScoreSpec {
    let mut s = ScoreSpec::default();
    let cap = u64::from(2 * n + 3);
    match rng.below(4) {
        0 => {}
        1 => s.state = Some(gen_state(rng, n)),
        2 => {
            s.accuracy = Some((rng.frange(40.0, 100.0) * 100.0).round() / 100.0);
            if rng.chance(0.5) {
                s.misses = Some(rng.below(u64::from(n) / 4 + 2) as u32);
            }
            if rng.chance(0.4) {
                s.combo = Some(rng.below(cap) as u32);
            }
        }
        _ => {
            if rng.chance(0.5) {
                s.accuracy = Some((rng.frange(0.0, 100.0) * 100.0).round() / 100.0);
            }
            macro_rules! maybe {
                ($f:ident, $p:expr) => {
                    if rng.chance($p) {
                        s.$f = Some(rng.below(cap) as u32);
                    }
                };
            }
            maybe!(combo, 0.4);
            maybe!(misses, 0.4);
            maybe!(n300, 0.3);
            maybe!(n100, 0.3);
            maybe!(n50, 0.3);
            maybe!(n_katu, 0.2);
            maybe!(n_geki, 0.2);
            maybe!(large_ticks, 0.2);
            maybe!(small_ticks, 0.2);
            maybe!(slider_ends, 0.2);
        }
    }
    if rng.chance(0.3) {
        s.best_case = Some(rng.chance(0.5));
    }
    s
}

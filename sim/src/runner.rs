//! Generic seeded-search driver: generate a case from `(seed, run)`, execute it
//! against the real library with the oracle attached, minimise on failure,
//! emit JSON lines. One process handles a contiguous range of runs; the
//! `check` script shards ranges over worker processes and merges.

use std::{
    cell::RefCell,
    collections::{BTreeMap, BTreeSet},
    io::Write,
    panic::{self, AssertUnwindSafe},
};

use serde_json::{json, Value};

use crate::prng::{fnv, Rng};

#[derive(Clone, Debug)]
pub struct Violation {
    /// Stable class of the failure: `<oracle>/<site or discriminating condition>`.
    pub key: String,
    pub detail: String,
}

impl Violation {
    pub fn new(key: impl Into<String>, detail: impl Into<String>) -> Self {
        Self {
            key: key.into(),
            detail: detail.into(),
        }
    }
}

#[derive(Default, Debug)]
pub struct Stats {
    pub faults: BTreeMap<String, u64>,
    pub probes: BTreeMap<String, u64>,
    pub ops: u64,
}

impl Stats {
    pub fn fault(&mut self, k: &str) {
        *self.faults.entry(k.to_owned()).or_insert(0) += 1;
    }
    pub fn probe(&mut self, k: &str) {
        *self.probes.entry(k.to_owned()).or_insert(0) += 1;
    }
    pub fn merge(&mut self, o: &Stats) {
        for (k, v) in &o.faults {
            *self.faults.entry(k.clone()).or_insert(0) += v;
        }
        for (k, v) in &o.probes {
            *self.probes.entry(k.clone()).or_insert(0) += v;
        }
        self.ops += o.ops;
    }
}

#[derive(Copy, Clone, Debug, PartialEq, Eq)]
pub enum Tier {
    Quick,
    Thorough,
}

pub trait Engine {
    type Case: Clone;
    fn name() -> &'static str;
    fn gen(rng: &mut Rng, tier: Tier) -> Self::Case;
    /// Runs the case against the real code. Must be a pure function of the case.
    fn exec(case: &Self::Case, stats: &mut Stats) -> Option<Violation>;
    fn simpler(case: &Self::Case) -> Vec<Self::Case>;
    fn to_json(case: &Self::Case) -> Value;
    fn from_json(v: &Value) -> Self::Case;
    /// Signature of the history / fault sequence (not of the data values).
    fn signature(case: &Self::Case) -> u64 {
        fnv(Self::to_json(case).to_string().as_bytes())
    }
    /// Did the case contain at least one fault / environment event / non-plain op?
    fn nontrivial(case: &Self::Case) -> bool;
    /// Discriminating conditions of the input that become part of a process-level
    /// violation class (hang / abort), where the worker cannot report anything itself.
    fn tags(_case: &Self::Case) -> Vec<String> {
        Vec::new()
    }
}

// ------------------------------------------------------------ panic capture

thread_local! {
    static LAST_PANIC: RefCell<Option<String>> = const { RefCell::new(None) };
}

pub fn install_panic_hook() {
    panic::set_hook(Box::new(|info| {
        let loc = info
            .location()
            .map(|l| {
                let f = l.file();
                // keep paths stable: strip everything before `src/` for /repo, keep crate dir for deps
                let short = if let Some(i) = f.find("/repo-link/") {
                    &f[i + 11..]
                } else if let Some(i) = f.find("/repo/") {
                    &f[i + 6..]
                } else if let Some(i) = f.find("registry/src/") {
                    let rest = &f[i + 13..];
                    rest.split_once('/').map_or(rest, |(_, r)| r)
                } else {
                    f
                };
                format!("{}:{}", short, l.line())
            })
            .unwrap_or_else(|| "?".into());
        let msg = if let Some(s) = info.payload().downcast_ref::<&str>() {
            (*s).to_owned()
        } else if let Some(s) = info.payload().downcast_ref::<String>() {
            s.clone()
        } else {
            "<non-string panic>".into()
        };
        LAST_PANIC.with(|p| *p.borrow_mut() = Some(format!("{loc}|{msg}")));
    }));
}

/// Runs library code; a panic becomes `Err("file:line|message")`.
pub fn guard<T>(f: impl FnOnce() -> T) -> Result<T, String> {
    LAST_PANIC.with(|p| *p.borrow_mut() = None);
    match panic::catch_unwind(AssertUnwindSafe(f)) {
        Ok(v) => Ok(v),
        Err(_) => Err(LAST_PANIC
            .with(|p| p.borrow_mut().take())
            .unwrap_or_else(|| "?|panic without hook".into())),
    }
}

pub fn panic_site(p: &str) -> &str {
    p.split('|').next().unwrap_or("?")
}

// ------------------------------------------------------------ minimisation

pub fn minimise<E: Engine>(case: &E::Case, key: &str, budget: usize) -> (E::Case, usize) {
    let mut best = case.clone();
    let mut used = 0;
    'outer: loop {
        for cand in E::simpler(&best) {
            if used >= budget {
                break 'outer;
            }
            used += 1;
            let mut st = Stats::default();
            if let Some(v) = E::exec(&cand, &mut st) {
                if v.key == key {
                    best = cand;
                    continue 'outer;
                }
            }
        }
        break;
    }
    (best, used)
}

// ------------------------------------------------------------ driver

pub struct RangeOut {
    pub runs: u64,
    pub violations: u64,
}

pub fn run_range<E: Engine>(
    seed: u64,
    from: u64,
    to: u64,
    tier: Tier,
    out: &mut dyn Write,
) -> RangeOut {
    let mut stats = Stats::default();
    let mut sigs: BTreeSet<u64> = BTreeSet::new();
    let mut nontrivial = 0u64;
    let mut samples: Vec<Value> = Vec::new();
    let mut violations = 0u64;
    let mut seen_keys: BTreeMap<String, u64> = BTreeMap::new();

    let progress = std::env::var_os("VERIF_PROGRESS").is_some();
    for run in from..to {
        if progress {
            // lets the parent name the in-flight run if this process stalls or dies
            let _ = writeln!(out, "{}", json!({"type": "begin", "run": run}));
            let _ = out.flush();
        }
        let mut rng = Rng::split(seed, E::name(), run);
        let case = E::gen(&mut rng, tier);
        let nt = E::nontrivial(&case);
        if nt {
            nontrivial += 1;
            if sigs.len() < 400_000 {
                sigs.insert(E::signature(&case));
            }
        }
        if samples.len() < 2 && nt {
            samples.push(json!({"run": run, "case": E::to_json(&case)}));
        }
        let mut st = Stats::default();
        let res = E::exec(&case, &mut st);
        stats.merge(&st);
        if let Some(v) = res {
            violations += 1;
            let n = seen_keys.entry(v.key.clone()).or_insert(0);
            *n += 1;
            // minimise and report only the first few of each class per worker
            if *n <= 2 {
                let (min, used) = minimise::<E>(&case, &v.key, if cfg!(miri) { 10 } else { 400 });
                let mut st2 = Stats::default();
                let v2 = E::exec(&min, &mut st2).unwrap_or_else(|| v.clone());
                let rec = json!({
                    "type": "violation", "engine": E::name(), "seed": seed, "run": run,
                    "key": v2.key, "detail": v2.detail, "minimise_steps": used,
                    "case": E::to_json(&min),
                    "original_case_signature": format!("{:016x}", E::signature(&case)),
                });
                let _ = writeln!(out, "{rec}");
            }
        }
    }
    let rec = json!({
        "type": "summary", "engine": E::name(), "seed": seed, "from": from, "to": to,
        "runs": to - from, "nontrivial": nontrivial,
        "sigs": sigs.iter().map(|s| format!("{s:016x}")).collect::<Vec<_>>(),
        "faults": stats.faults, "probes": stats.probes, "ops": stats.ops,
        "violations": violations, "violation_keys": seen_keys, "samples": samples,
    });
    let _ = writeln!(out, "{rec}");
    RangeOut {
        runs: to - from,
        violations,
    }
}

/// Replays an explicit case file (no PRNG involved).
pub fn replay<E: Engine>(v: &Value, out: &mut dyn Write) -> bool {
    let case = E::from_json(&v["case"]);
    let mut st = Stats::default();
    match E::exec(&case, &mut st) {
        Some(vi) => {
            let _ = writeln!(
                out,
                "{}",
                json!({"type":"replay","reproduced":true,"key":vi.key,"detail":vi.detail})
            );
            true
        }
        None => {
            let _ = writeln!(out, "{}", json!({"type":"replay","reproduced":false}));
            false
        }
    }
}

/// Event log of a range (for determinism self-test and C10): one line per run
/// with a digest of everything the library returned.
pub fn digest_str(s: &str) -> String {
    format!("{:016x}", fnv(s.as_bytes()))
}

//! Workload: `.osu` texts. A map is kept as four line lists so that the
//! minimiser can drop timing points and hit objects individually and a replay
//! file carries the text inline.

use serde_json::{json, Value};

use crate::prng::Rng;

#[derive(Clone, Debug, PartialEq, Default)]
pub struct MapText {
    pub pre: Vec<String>,
    pub timing: Vec<String>,
    pub mid: Vec<String>,
    pub objects: Vec<String>,
}

impl MapText {
    pub fn render(&self) -> String {
        let mut s = String::new();
        for l in &self.pre {
            s.push_str(l);
            s.push('\n');
        }
        s.push_str("[TimingPoints]\n");
        for l in &self.timing {
            s.push_str(l);
            s.push('\n');
        }
        for l in &self.mid {
            s.push_str(l);
            s.push('\n');
        }
        s.push_str("[HitObjects]\n");
        for l in &self.objects {
            s.push_str(l);
            s.push('\n');
        }
        s
    }

    pub fn to_json(&self) -> Value {
        json!({"pre": self.pre, "timing": self.timing, "mid": self.mid, "objects": self.objects})
    }

    pub fn from_json(v: &Value) -> Self {
        let list = |k: &str| -> Vec<String> {
            v[k].as_array()
                .map(|a| {
                    a.iter()
                        .filter_map(|x| x.as_str().map(str::to_owned))
                        .collect()
                })
                .unwrap_or_default()
        };
        Self {
            pre: list("pre"),
            timing: list("timing"),
            mid: list("mid"),
            objects: list("objects"),
        }
    }

    /// Split a real `.osu` text into the four lists.
    pub fn parse(text: &str) -> Self {
        let mut m = MapText::default();
        let mut sect = 0; // 0 pre, 1 timing, 2 mid, 3 objects
        for raw in text.lines() {
            let line = raw.trim_end_matches('\r');
            let t = line.trim();
            if t.starts_with('[') && t.ends_with(']') {
                if t == "[TimingPoints]" {
                    sect = 1;
                    continue;
                } else if t == "[HitObjects]" {
                    sect = 3;
                    continue;
                } else if sect == 1 || sect == 3 {
                    sect = 2;
                }
            }
            match sect {
                0 => m.pre.push(line.to_owned()),
                1 => {
                    if !t.is_empty() {
                        m.timing.push(line.to_owned());
                    }
                }
                2 => m.mid.push(line.to_owned()),
                _ => {
                    if !t.is_empty() {
                        m.objects.push(line.to_owned());
                    }
                }
            }
        }
        m
    }

    /// Keep at most `n` hit objects (prefix).
    pub fn cut(mut self, n: usize) -> Self {
        self.objects.truncate(n);
        self
    }

    /// Candidates with one or several lines removed.
    pub fn simpler(&self) -> Vec<MapText> {
        let mut out = Vec::new();
        let n = self.objects.len();
        // halves first, then single lines
        if n > 3 {
            let mut c = self.clone();
            c.objects.truncate(n / 2);
            out.push(c);
            let mut c = self.clone();
            c.objects.drain(..n / 2);
            out.push(c);
            let mut c = self.clone();
            c.objects.truncate(n - 1 - n / 4);
            out.push(c);
        }
        for i in (0..n).rev() {
            let mut c = self.clone();
            c.objects.remove(i);
            out.push(c);
        }
        for i in (0..self.timing.len()).rev() {
            let mut c = self.clone();
            c.timing.remove(i);
            out.push(c);
        }
        if !self.mid.is_empty() {
            let mut c = self.clone();
            c.mid.clear();
            out.push(c);
        }
        for i in (0..self.pre.len()).rev() {
            // never drop the mode line or the format line: they define the case
            let l = &self.pre[i];
            if l.starts_with("Mode") || l.starts_with("osu file format") || l.starts_with('[') {
                continue;
            }
            let mut c = self.clone();
            c.pre.remove(i);
            out.push(c);
        }
        out
    }
}

#[derive(Clone, Debug)]
pub struct Shape {
    pub mode: usize,
    pub n: usize,
    /// 0 circles mostly, 1 mixed, 2 slider heavy, 3 spinner/long heavy
    pub mix: u8,
    /// 0 beat grid, 1 dense, 2 long gaps, 3 chaotic (zero gaps, same time)
    pub tempo: u8,
    pub first_long: bool,
    pub neg_start: bool,
    pub tie_timing: bool,
    pub version: i32,
}

pub fn gen_shape(rng: &mut Rng, mode: usize, max_n: usize) -> Shape {
    let n = match rng.below(10) {
        0 => rng.usize(4),     // 0..=3
        1 | 2 => 3 + rng.usize(6),
        _ => rng.usize(max_n + 1),
    };
    Shape {
        mode,
        n,
        mix: rng.weighted(&[3, 4, 2, 2]) as u8,
        tempo: rng.weighted(&[5, 2, 2, 2]) as u8,
        first_long: rng.chance(0.3),
        neg_start: rng.chance(0.07),
        tie_timing: rng.chance(0.3),
        version: if rng.chance(0.8) {
            14
        } else {
            rng.range(3, 14) as i32
        },
    }
}

fn r1(x: f64) -> f64 {
    (x * 10.0).round() / 10.0
}

const MANIA_KEYS: [u32; 8] = [4, 7, 4, 7, 5, 6, 8, 9];

pub fn gen_map(rng: &mut Rng, sh: &Shape) -> MapText {
    let mut m = MapText::default();
    let keys = if sh.mode == 3 {
        *rng.pick(&MANIA_KEYS)
    } else {
        0
    };

    m.pre.push(format!("osu file format v{}", sh.version));
    m.pre.push(String::new());
    m.pre.push("[General]".into());
    m.pre.push(format!("StackLeniency: {}", r1(rng.frange(0.0, 1.0))));
    m.pre.push(format!("Mode: {}", sh.mode));
    m.pre.push(String::new());
    m.pre.push("[Difficulty]".into());
    m.pre.push(format!("HPDrainRate:{}", r1(rng.frange(0.0, 10.0))));
    if sh.mode == 3 && rng.chance(0.05) {
        m.pre.push(format!("CircleSize:{}", *rng.pick(&[0.0, 0.4, 12.0, 18.0, 19.0, 30.0, 2.5, 4.5, 6.5, 5.5, 3.49, 8.5])));
    } else if sh.mode == 3 {
        m.pre.push(format!("CircleSize:{keys}"));
    } else {
        if rng.chance(0.06) {
            m.pre.push(format!("CircleSize:{}", *rng.pick(&[0.0, 0.3, 11.0, 15.0, 18.0, 25.0, -1.0])));
        } else {
            m.pre.push(format!("CircleSize:{}", r1(rng.frange(0.0, 10.0))));
        }
    }
    m.pre
        .push(format!("OverallDifficulty:{}", r1(rng.frange(0.0, 10.0))));
    if rng.chance(0.85) {
        m.pre
            .push(format!("ApproachRate:{}", r1(rng.frange(0.0, 10.0))));
    }
    m.pre.push(format!(
        "SliderMultiplier:{}",
        *rng.pick(&[1.4, 1.0, 1.8, 2.4, 0.8, 3.2, 1.7])
    ));
    m.pre
        .push(format!("SliderTickRate:{}", *rng.pick(&[1.0, 2.0, 1.0, 4.0, 0.5, 3.0])));
    m.pre.push(String::new());

    // ---- object times
    let beat = *rng.pick(&[500.0, 400.0, 333.333_333_333_333, 300.0, 250.0, 600.0, 461.538_461_538_462]);
    let mut t: f64 = if sh.neg_start {
        -rng.frange(0.0, 3000.0).round()
    } else {
        rng.frange(0.0, 5000.0).round()
    };
    let start = t;
    let mut times = Vec::with_capacity(sh.n);
    for _ in 0..sh.n {
        times.push(t);
        let gap = match sh.tempo {
            0 => beat / f64::from(*rng.pick(&[1u32, 2, 2, 4, 4, 1])),
            1 => rng.frange(20.0, 150.0).round(),
            2 => {
                if rng.chance(0.15) {
                    rng.frange(5000.0, 60000.0).round()
                } else {
                    beat / 2.0
                }
            }
            _ => {
                if rng.chance(0.3) {
                    0.0
                } else if rng.chance(0.1) {
                    rng.frange(2000.0, 20000.0).round()
                } else {
                    rng.frange(1.0, 600.0).round()
                }
            }
        };
        t += gap;
    }

    // ---- events (breaks)
    m.pre.push("[Events]".into());
    if sh.n > 4 && rng.chance(0.25) {
        let i = 1 + rng.usize(sh.n - 2);
        m.pre
            .push(format!("2,{},{}", times[i].round(), times[i + 1].round()));
    }
    m.pre.push(String::new());

    // ---- timing points
    let first_tp = if rng.chance(0.8) {
        (start - rng.frange(0.0, 1000.0)).round()
    } else {
        (start + rng.frange(0.0, 1500.0)).round() // first point after first object
    };
    if !(sh.n > 0 && rng.chance(0.03)) {
        m.timing.push(format!("{first_tp},{beat},4,2,0,100,1,0"));
    }
    let end = t.max(start + 1000.0);
    if sh.tie_timing {
        // sections whose total durations tie in many ways, over up to ten distinct beat lengths,
        // some re-entered later: what Beatmap::bpm has to break ties on deterministically
        let many = rng.chance(0.4);
        let parts = 2 + rng.usize(if many { 9 } else { 3 });
        let unit = ((end - first_tp) / (parts as f64 * 2.0)).floor().max(1.0);
        let bls = [
            beat, beat / 2.0, beat * 2.0, 375.0, 428.0, 545.0, 666.0, 315.0, 272.0, 800.0, beat, 375.0,
        ];
        let mut tt = first_tp;
        let mut order: Vec<usize> = (0..bls.len()).collect();
        rng.shuffle(&mut order[1..]);
        for k in 1..parts {
            tt += unit * (1 + rng.usize(3)) as f64;
            let bl = bls[order[k % bls.len()]];
            m.timing.push(format!("{tt},{bl},4,2,0,100,1,0"));
        }
    } else {
        let extra = rng.usize(4);
        for _ in 0..extra {
            let tt = rng.frange(start, end).round();
            if rng.chance(0.4) {
                let bl = if rng.chance(0.03) { *rng.pick(&[60000.0, 6.0, 20000.0]) } else { *rng.pick(&[500.0, 250.0, 375.0, 1000.0, 187.5, 2000.0]) };
                m.timing.push(format!("{tt},{bl},4,2,0,100,1,0"));
            } else {
                let sv = if rng.chance(0.05) { *rng.pick(&[-1000.0, -10.0]) } else { *rng.pick(&[-100.0, -50.0, -200.0, -133.333_333_333_333, -75.0, -400.0, -25.0]) };
                let kiai = u8::from(rng.chance(0.3));
                m.timing.push(format!("{tt},{sv},4,2,0,100,0,{kiai}"));
            }
        }
        // not necessarily sorted in the file: the decoder must cope
        if !rng.chance(0.2) {
            m.timing.sort_by(|a, b| {
                let ta: f64 = a.split(',').next().unwrap().parse().unwrap();
                let tb: f64 = b.split(',').next().unwrap().parse().unwrap();
                ta.total_cmp(&tb)
            });
        }
    }

    // ---- objects
    for (i, &time) in times.iter().enumerate() {
        let next_gap = if i + 1 < times.len() {
            (times[i + 1] - time).max(0.0)
        } else {
            beat * 2.0
        };
        let sound = *rng.pick(&[0u32, 0, 0, 2, 8, 4, 12, 6, 10, 1]);
        let nc = if rng.chance(0.15) { 4 } else { 0 };
        let force_long = i < 2 && sh.first_long && rng.chance(0.8);
        let kind = if force_long {
            if rng.chance(0.5) {
                2
            } else {
                1
            }
        } else {
            let w: [u32; 3] = match sh.mix {
                0 => [92, 6, 2],
                1 => [60, 32, 8],
                2 => [25, 70, 5],
                _ => [35, 25, 40],
            };
            rng.weighted(&w)
        };
        let line = if sh.mode == 3 {
            let col = rng.below(u64::from(keys)) as u32;
            let x = (512 * col + 256) / keys;
            if kind == 0 {
                format!("{x},192,{time},{},{sound},0:0:0:0:", 1 + nc)
            } else {
                let dur = match rng.below(4) {
                    0 => 100.0 * rng.range(1, 12) as f64, // exact multiples of 100 ms
                    1 => 0.0,
                    _ => rng.frange(10.0, 1500.0).round(),
                };
                format!("{x},192,{time},128,{sound},{}:0:0:0:0:", time + dur)
            }
        } else {
            let x = rng.range(0, 512);
            let y = rng.range(0, 384);
            match kind {
                0 => format!("{x},{y},{time},{},{sound},0:0:0:0:", 1 + nc),
                1 => {
                    let (ty, pts) = match rng.below(5) {
                        0 => ("L", 1),
                        1 => ("P", 2),
                        2 => ("B", 1 + rng.usize(4)),
                        3 => ("C", 2 + rng.usize(2)),
                        _ => ("B", 2),
                    };
                    let mut path = String::from(ty);
                    let (mut px, mut py) = (x, y);
                    for k in 0..pts {
                        if k > 0 && ty == "B" && rng.chance(0.25) {
                            // repeated anchor = segment split
                            path.push_str(&format!("|{px}:{py}"));
                            continue;
                        }
                        px = (px + rng.range(-150, 150)).clamp(-50, 560);
                        py = (py + rng.range(-120, 120)).clamp(-50, 430);
                        path.push_str(&format!("|{px}:{py}"));
                    }
                    let repeats = match rng.below(10) {
                        0 => 1 + rng.range(2, 8),
                        1 | 2 => 2,
                        _ => 1,
                    };
                    let len = match rng.below(8) {
                        0 => r1(rng.frange(1.0, 20.0)),
                        1 => r1(rng.frange(400.0, 900.0)),
                        _ => r1(rng.frange(30.0, 300.0)),
                    };
                    let edge: Vec<String> = (0..=repeats)
                        .map(|_| rng.pick(&[0u32, 2, 8, 4]).to_string())
                        .collect();
                    if rng.chance(0.7) {
                        format!(
                            "{x},{y},{time},{},{sound},{path},{repeats},{len},{},{},0:0:0:0:",
                            2 + nc,
                            edge.join("|"),
                            vec!["0:0"; repeats as usize + 1].join("|")
                        )
                    } else {
                        format!("{x},{y},{time},{},{sound},{path},{repeats},{len}", 2 + nc)
                    }
                }
                _ => {
                    let dur = if rng.chance(0.2) {
                        0.0
                    } else {
                        (next_gap * rng.frange(0.3, 1.5)).round().min(20000.0)
                    };
                    format!("256,192,{time},{},{sound},{},0:0:0:0:", 8 + nc, time + dur)
                }
            }
        };
        m.objects.push(line);
    }
    // a lightly unsorted file now and then (the decoder sorts)
    if sh.n > 2 && rng.chance(0.06) {
        let i = rng.usize(sh.n - 1);
        m.objects.swap(i, i + 1);
    }
    m
}

/// osu! maps shaped to drive the converters through their rarer branches: dense streams, sliders
/// with many repeats and long spans, and the next object placed at a chosen small distance after
/// the *end* of the previous one (the converters branch on those gaps and on the hit sounds).
pub fn gen_convert_stress(rng: &mut Rng, max_n: usize) -> MapText {
    let mut m = MapText::default();
    let sm = *rng.pick(&[1.0, 1.4, 1.8, 0.8, 2.4]);
    let beat = *rng.pick(&[500.0, 400.0, 300.0, 600.0, 250.0]);
    m.pre.push("osu file format v14".into());
    m.pre.push("[General]".into());
    m.pre.push(format!("StackLeniency: {}", r1(rng.frange(0.0, 1.0))));
    m.pre.push("Mode: 0".into());
    m.pre.push("[Difficulty]".into());
    m.pre.push(format!("HPDrainRate:{}", r1(rng.frange(0.0, 10.0))));
    m.pre.push(format!("CircleSize:{}", r1(rng.frange(2.0, 7.0))));
    m.pre.push(format!("OverallDifficulty:{}", r1(rng.frange(0.0, 10.0))));
    m.pre.push(format!("ApproachRate:{}", r1(rng.frange(0.0, 10.0))));
    m.pre.push(format!("SliderMultiplier:{sm}"));
    m.pre.push(format!("SliderTickRate:{}", *rng.pick(&[1.0, 2.0, 4.0])));
    m.pre.push("[Events]".into());
    m.timing.push(format!("0,{beat},4,2,0,100,1,0"));
    let n = 4 + rng.usize(max_n.max(5) - 4);
    let velocity = 100.0 * sm / beat; // px per ms at slider velocity 1
    let mut t = 200.0;
    // a stream first: the map counts as dense
    let stream = rng.usize(n / 2 + 1);
    for i in 0..n {
        let x = rng.range(0, 512);
        let y = rng.range(0, 384);
        let sound = *rng.pick(&[0u32, 0, 2, 8, 4, 12, 6, 10, 14]);
        if i < stream {
            m.objects.push(format!("{x},{y},{t},1,{sound},0:0:0:0:"));
            t += *rng.pick(&[50.0, 60.0, 75.0, 90.0, 100.0, 125.0]);
            continue;
        }
        let gap_after_end = *rng.pick(&[40.0, 70.0, 90.0, 100.0, 110.0, 120.0, 130.0, 140.0, 160.0, 250.0, 500.0]);
        match rng.weighted(&[45, 45, 10]) {
            0 => {
                m.objects.push(format!("{x},{y},{t},{},{sound},0:0:0:0:", if rng.chance(0.2) { 5 } else { 1 }));
                t += gap_after_end;
            }
            1 => {
                let repeats = *rng.pick(&[1u32, 1, 2, 3, 4, 5, 6, 8]);
                let px = *rng.pick(&[40.0, 60.0, 84.0, 100.0, 140.0, 200.0, 280.0]);
                let ex = (x + rng.range(-120, 120)).clamp(0, 512);
                let ey = (y + rng.range(-90, 90)).clamp(0, 384);
                let edge: Vec<String> = (0..=repeats).map(|_| rng.pick(&[0u32, 2, 8, 4]).to_string()).collect();
                m.objects
                    .push(format!("{x},{y},{t},2,{sound},L|{ex}:{ey},{repeats},{px},{}", edge.join("|")));
                t += px * f64::from(repeats) / velocity + gap_after_end;
            }
            _ => {
                let dur = *rng.pick(&[100.0, 400.0, 1000.0, 2500.0]);
                m.objects.push(format!("256,192,{t},12,{sound},{},0:0:0:0:", t + dur));
                t += dur + gap_after_end;
            }
        }
        t = (t * 2.0).round() / 2.0;
    }
    m
}

/// Moves every object from index `from` on (start and end times) by `delta` ms: a long break.
pub fn shift_times(m: &mut MapText, from: usize, delta: f64) {
    for l in m.objects.iter_mut().skip(from) {
        let mut f: Vec<String> = l.split(',').map(str::to_owned).collect();
        if f.len() < 4 {
            continue;
        }
        if let Ok(t) = f[2].parse::<f64>() {
            f[2] = format!("{}", t + delta);
        }
        if f.len() > 5 {
            if let Ok(ty) = f[3].parse::<u32>() {
                if ty & 8 != 0 {
                    if let Ok(e) = f[5].parse::<f64>() {
                        f[5] = format!("{}", e + delta);
                    }
                } else if ty & 128 != 0 {
                    let (e, rest) = f[5]
                        .split_once(':')
                        .map_or((f[5].clone(), String::new()), |(a, b)| (a.to_owned(), b.to_owned()));
                    if let Ok(e) = e.parse::<f64>() {
                        f[5] = format!("{}:{}", e + delta, rest);
                    }
                }
            }
        }
        *l = f.join(",");
    }
}

pub const REAL_MAPS: [(&str, usize); 4] = [
    ("2785319.osu", 0),
    ("1028484.osu", 1),
    ("2118524.osu", 2),
    ("1638954.osu", 3),
];

pub fn load_real(idx: usize) -> MapText {
    // the repository under test: /verif/repo-link (-> /repo), resolved relative to this crate
    let path = format!("{}/../repo-link/resources/{}", env!("CARGO_MANIFEST_DIR"), REAL_MAPS[idx].0);
    let bytes = std::fs::read(&path).unwrap_or_else(|e| panic!("harness: cannot read {path}: {e}"));
    MapText::parse(&String::from_utf8_lossy(&bytes))
}

/// A window of a real map: objects `[from, from+n)`.
pub fn real_window(rng: &mut Rng, idx: usize, max_n: usize) -> MapText {
    let mut m = load_real(idx);
    let total = m.objects.len();
    let n = 1 + rng.usize(max_n.min(total));
    let from = if rng.chance(0.5) {
        0
    } else {
        rng.usize(total - n + 1)
    };
    m.objects = m.objects[from..from + n].to_vec();
    m
}

//! E1 for C02 / C03 / C15: a gradual calculator is a stateful client; the
//! seeded scheduler decides the history of calls and the environment events
//! between them (crash + restart, moves, thread hops, interleaved unrelated
//! work, early drop of the map); a reference model runs alongside.

use std::mem;

use serde_json::{json, Value};

use crate::{
    each_gd,
    mapgen::{gen_map, gen_shape, real_window, MapText},
    prng::{fnv, Rng},
    runner::{guard, panic_site, Engine, Stats, Tier, Violation},
    spec::{gen_diff, gen_state, mode_name, DiffSpec, StateSpec},
    sut::{self, AnyGD, AnyGP, Dig},
};

#[derive(Clone, Debug, PartialEq)]
pub enum GOp {
    Next,
    Nth(u64),
    Len,
    SizeHint,
    /// Drop the calculator here, rebuild it from (map, settings), fast-forward.
    Crash,
    /// 0 box round trip, 1 vec growth, 2 swap with a fresh instance, 3 thread hop
    Move(u8),
    /// Run an unrelated calculation in between (another client acts).
    Interleave,
    /// Execute the next step on a fresh thread (only where the type is Send).
    NextOnThread,
    // terminal adaptors (consume the calculator)
    StepBy(u64),
    Skip(u64),
    Take(u64),
    Last,
    Count,
    Collect,
    ZipTwin,
    ByRefNthThenCollect(u64),
    // gradual performance
    PNext(StateSpec),
    PNth(StateSpec, u64),
    PLast(StateSpec),
    PLen,
}

impl GOp {
    fn to_json(&self) -> Value {
        match self {
            GOp::Next => json!("next"),
            GOp::Nth(k) => json!({"nth": k}),
            GOp::Len => json!("len"),
            GOp::SizeHint => json!("size_hint"),
            GOp::Crash => json!("crash_restart"),
            GOp::Move(k) => json!({"move": k}),
            GOp::Interleave => json!("interleave"),
            GOp::NextOnThread => json!("next_on_thread"),
            GOp::StepBy(k) => json!({"step_by": k}),
            GOp::Skip(k) => json!({"skip": k}),
            GOp::Take(k) => json!({"take": k}),
            GOp::Last => json!("last"),
            GOp::Count => json!("count"),
            GOp::Collect => json!("collect"),
            GOp::ZipTwin => json!("zip_twin"),
            GOp::ByRefNthThenCollect(k) => json!({"by_ref_nth_collect": k}),
            GOp::PNext(s) => json!({"pnext": s.to_json()}),
            GOp::PNth(s, k) => json!({"pnth": s.to_json(), "k": k}),
            GOp::PLast(s) => json!({"plast": s.to_json()}),
            GOp::PLen => json!("plen"),
        }
    }

    fn from_json(v: &Value) -> GOp {
        if let Some(s) = v.as_str() {
            return match s {
                "next" => GOp::Next,
                "len" => GOp::Len,
                "size_hint" => GOp::SizeHint,
                "crash_restart" => GOp::Crash,
                "interleave" => GOp::Interleave,
                "next_on_thread" => GOp::NextOnThread,
                "last" => GOp::Last,
                "count" => GOp::Count,
                "collect" => GOp::Collect,
                "zip_twin" => GOp::ZipTwin,
                "plen" => GOp::PLen,
                other => panic!("harness: unknown op {other}"),
            };
        }
        let u = |k: &str| v[k].as_u64();
        if let Some(k) = u("nth") {
            GOp::Nth(k)
        } else if let Some(k) = u("move") {
            GOp::Move(k as u8)
        } else if let Some(k) = u("step_by") {
            GOp::StepBy(k)
        } else if let Some(k) = u("skip") {
            GOp::Skip(k)
        } else if let Some(k) = u("take") {
            GOp::Take(k)
        } else if let Some(k) = u("by_ref_nth_collect") {
            GOp::ByRefNthThenCollect(k)
        } else if !v["pnext"].is_null() {
            GOp::PNext(StateSpec::from_json(&v["pnext"]))
        } else if !v["pnth"].is_null() {
            GOp::PNth(StateSpec::from_json(&v["pnth"]), v["k"].as_u64().unwrap_or(0))
        } else if !v["plast"].is_null() {
            GOp::PLast(StateSpec::from_json(&v["plast"]))
        } else {
            panic!("harness: unknown op {v}")
        }
    }

    fn kind(&self) -> &'static str {
        match self {
            GOp::Next => "next",
            GOp::Nth(_) => "nth",
            GOp::Len => "len",
            GOp::SizeHint => "size_hint",
            GOp::Crash => "crash_restart",
            GOp::Move(0) => "move_box",
            GOp::Move(1) => "move_vec_growth",
            GOp::Move(2) => "move_swap",
            GOp::Move(_) => "move_thread_hop",
            GOp::Interleave => "interleave",
            GOp::NextOnThread => "next_on_thread",
            GOp::StepBy(_) => "step_by",
            GOp::Skip(_) => "skip",
            GOp::Take(_) => "take",
            GOp::Last => "last",
            GOp::Count => "count",
            GOp::Collect => "collect",
            GOp::ZipTwin => "zip",
            GOp::ByRefNthThenCollect(_) => "by_ref_nth_collect",
            GOp::PNext(_) => "pnext",
            GOp::PNth(_, _) => "pnth",
            GOp::PLast(_) => "plast",
            GOp::PLen => "plen",
        }
    }

    fn is_event(&self) -> bool {
        matches!(
            self,
            GOp::Crash | GOp::Move(_) | GOp::Interleave | GOp::NextOnThread
        )
    }

    fn simpler(&self) -> Vec<GOp> {
        let shrink_k = |k: u64| -> Vec<u64> {
            let mut v = Vec::new();
            if k > 0 {
                v.push(0);
            }
            if k > 1 {
                v.push(1);
                v.push(k / 2);
            }
            if k > 3 {
                v.push(k - 1);
            }
            v
        };
        match self {
            GOp::Nth(k) => {
                let mut v = vec![GOp::Next];
                v.extend(shrink_k(*k).into_iter().map(GOp::Nth));
                v
            }
            GOp::NextOnThread => vec![GOp::Next],
            GOp::StepBy(k) => shrink_k(*k)
                .into_iter()
                .filter(|k| *k > 0)
                .map(GOp::StepBy)
                .collect(),
            GOp::Skip(k) => shrink_k(*k).into_iter().map(GOp::Skip).collect(),
            GOp::Take(k) => shrink_k(*k).into_iter().map(GOp::Take).collect(),
            GOp::ByRefNthThenCollect(k) => shrink_k(*k)
                .into_iter()
                .map(GOp::ByRefNthThenCollect)
                .collect(),
            GOp::PNth(s, k) => {
                let mut v = vec![GOp::PNext(s.clone())];
                v.extend(shrink_k(*k).into_iter().map(|k| GOp::PNth(s.clone(), k)));
                v.extend(s.simpler().into_iter().map(|s| GOp::PNth(s, *k)));
                v
            }
            GOp::PNext(s) => s.simpler().into_iter().map(GOp::PNext).collect(),
            GOp::PLast(s) => s.simpler().into_iter().map(GOp::PLast).collect(),
            _ => vec![],
        }
    }
}

#[derive(Copy, Clone, Debug, PartialEq, Eq)]
pub enum Prop {
    C02,
    C03,
    C15,
}

impl Prop {
    fn s(self) -> &'static str {
        match self {
            Prop::C02 => "C02",
            Prop::C03 => "C03",
            Prop::C15 => "C15",
        }
    }
}

#[derive(Clone, Debug)]
pub struct GradCase {
    pub prop: Prop,
    pub map: MapText,
    pub target: usize,
    pub api_enum: bool,
    pub diff: DiffSpec,
    pub drop_map_early: bool,
    pub ops: Vec<GOp>,
}

fn case_to_json(c: &GradCase) -> Value {
    json!({
        "prop": c.prop.s(), "map": c.map.to_json(), "target": c.target, "api_enum": c.api_enum,
        "diff": c.diff.to_json(), "drop_map_early": c.drop_map_early,
        "ops": c.ops.iter().map(GOp::to_json).collect::<Vec<_>>(),
    })
}

fn case_from_json(v: &Value) -> GradCase {
    GradCase {
        prop: match v["prop"].as_str().unwrap_or("C02") {
            "C03" => Prop::C03,
            "C15" => Prop::C15,
            _ => Prop::C02,
        },
        map: MapText::from_json(&v["map"]),
        target: v["target"].as_u64().unwrap_or(0) as usize,
        api_enum: v["api_enum"].as_bool().unwrap_or(false),
        diff: DiffSpec::from_json(&v["diff"]),
        drop_map_early: v["drop_map_early"].as_bool().unwrap_or(false),
        ops: v["ops"]
            .as_array()
            .map(|a| a.iter().map(GOp::from_json).collect())
            .unwrap_or_default(),
    }
}

fn case_simpler(c: &GradCase) -> Vec<GradCase> {
    let mut out = Vec::new();
    // ops: drop everything, halves, singles
    if !c.ops.is_empty() {
        let mut x = c.clone();
        x.ops.clear();
        out.push(x);
        let n = c.ops.len();
        if n > 2 {
            let mut x = c.clone();
            x.ops.truncate(n / 2);
            out.push(x);
            let mut x = c.clone();
            x.ops.drain(..n / 2);
            out.push(x);
        }
        // drop events first, then the rest
        for pass in 0..2 {
            for i in (0..n).rev() {
                if c.ops[i].is_event() == (pass == 0) {
                    let mut x = c.clone();
                    x.ops.remove(i);
                    out.push(x);
                }
            }
        }
    }
    if c.drop_map_early {
        let mut x = c.clone();
        x.drop_map_early = false;
        out.push(x);
    }
    for m in c.map.simpler() {
        let mut x = c.clone();
        x.map = m;
        out.push(x);
    }
    for d in c.diff.simpler() {
        let mut x = c.clone();
        x.diff = d;
        out.push(x);
    }
    if c.api_enum {
        let mut x = c.clone();
        x.api_enum = false;
        out.push(x);
    }
    for (i, op) in c.ops.iter().enumerate() {
        for s in op.simpler() {
            let mut x = c.clone();
            x.ops[i] = s;
            out.push(x);
        }
    }
    out
}

fn signature(c: &GradCase) -> u64 {
    let kinds: Vec<&str> = c.ops.iter().map(GOp::kind).collect();
    let shape = match c.map.objects.len() {
        0 => 0,
        1 => 1,
        2 => 2,
        3 => 3,
        n => 4 + n / 16,
    };
    fnv(format!(
        "{}|{}|{}|{}|{}|{:?}",
        c.prop.s(),
        c.target,
        c.api_enum,
        c.drop_map_early,
        shape,
        kinds
    )
    .as_bytes())
}

// ------------------------------------------------------------ generation

fn gen_k(rng: &mut Rng, scale: u64) -> u64 {
    match rng.below(12) {
        0..=2 => 0,
        3 | 4 => 1,
        5 => 2,
        6 => 3,
        7 => rng.below(scale + 2),
        8 => scale.saturating_sub(1),
        9 => scale + rng.below(3),
        10 => u64::from(u32::MAX),
        _ => usize::MAX as u64,
    }
}

fn gen_event(rng: &mut Rng) -> GOp {
    match rng.weighted(&[30, 12, 12, 12, 10, 12, 12]) {
        0 => GOp::Crash,
        1 => GOp::Move(0),
        2 => GOp::Move(1),
        3 => GOp::Move(2),
        4 => GOp::Move(3),
        5 => GOp::Interleave,
        _ => GOp::NextOnThread,
    }
}

fn gen_case(rng: &mut Rng, tier: Tier, prop: Prop) -> GradCase {
    let max_n = match (tier, prop) {
        (Tier::Quick, Prop::C02) => 28,
        (Tier::Quick, _) => 36,
        (Tier::Thorough, Prop::C02) => 60,
        (Tier::Thorough, _) => 70,
    };
    let max_n = if cfg!(miri) { 7 } else { max_n };
    let (map, map_mode) = if !cfg!(miri) && rng.chance(0.22) {
        let idx = rng.usize(4);
        (real_window(rng, idx, max_n), idx)
    } else {
        let mode = rng.weighted(&[40, 20, 20, 20]);
        let sh = gen_shape(rng, mode, max_n);
        (gen_map(rng, &sh), mode)
    };
    let target = if map_mode == 0 {
        rng.weighted(&[40, 20, 20, 20])
    } else {
        map_mode
    };
    let mut diff = gen_diff(rng, target);
    // C15 is pure protocol (the model is whatever plain next() yields), so the calculator's own
    // Difficulty may also carry passed_objects; C02/C03 compare against passed_objects(i) and leave it unset
    if prop == Prop::C15 && rng.chance(0.15) {
        diff.passed = Some(rng.below(map.objects.len() as u64 + 3) as u32);
    }
    let api_enum = rng.chance(0.4);
    let drop_map_early = rng.chance(0.25);
    let n = map.objects.len() as u64;
    // swarm: which event kinds are enabled in this run
    let ev_rate = *rng.pick(&[0.0, 0.0, 0.05, 0.15, 0.3]);
    let mut ops = Vec::new();
    match prop {
        Prop::C02 => {
            // implicit `next` until exhaustion; the list only places events
            let steps = n + 2;
            for _ in 0..steps {
                if rng.chance(ev_rate) {
                    ops.push(gen_event(rng));
                } else {
                    ops.push(GOp::Next);
                }
            }
        }
        Prop::C15 => {
            let len = 2 + rng.usize(14);
            for _ in 0..len {
                if rng.chance(ev_rate) {
                    ops.push(gen_event(rng));
                    continue;
                }
                ops.push(match rng.weighted(&[30, 30, 14, 8]) {
                    0 => GOp::Next,
                    1 => GOp::Nth(gen_k(rng, n)),
                    2 => GOp::Len,
                    _ => GOp::SizeHint,
                });
            }
            // terminal
            match rng.below(11) {
                0 => ops.push(GOp::StepBy(1 + gen_k(rng, n).min(1_000_000))),
                1 => ops.push(GOp::Skip(gen_k(rng, n))),
                2 => ops.push(GOp::Take(gen_k(rng, n))),
                3 => ops.push(GOp::Last),
                4 => ops.push(GOp::Count),
                5 => ops.push(GOp::Collect),
                6 => ops.push(GOp::ZipTwin),
                7 => ops.push(GOp::ByRefNthThenCollect(gen_k(rng, n))),
                _ => {}
            }
        }
        Prop::C03 => {
            let len = 2 + rng.usize(10);
            let states_n = (n as u32).max(1);
            for _ in 0..len {
                if rng.chance(ev_rate) {
                    ops.push(match rng.below(3) {
                        0 => GOp::Crash,
                        1 => GOp::Interleave,
                        _ => GOp::Move(rng.below(3) as u8),
                    });
                    continue;
                }
                let s = gen_state(rng, states_n);
                ops.push(match rng.weighted(&[35, 35, 8, 12]) {
                    0 => GOp::PNext(s),
                    1 => GOp::PNth(s, gen_k(rng, n)),
                    2 => GOp::PLast(s),
                    _ => GOp::PLen,
                });
            }
            if rng.chance(0.4) {
                let s = gen_state(rng, states_n);
                ops.push(GOp::PLast(s));
                ops.push(GOp::PNext(gen_state(rng, states_n)));
                ops.push(GOp::PLen);
            }
        }
    }
    GradCase {
        prop,
        map,
        target,
        api_enum,
        drop_map_early,
        diff,
        ops,
    }
}

// ------------------------------------------------------------ helpers

/// Name of the first field in which two `Debug` renderings differ.
pub fn first_diff_field(a: &str, b: &str) -> String {
    let sa: Vec<&str> = a.split(", ").collect();
    let sb: Vec<&str> = b.split(", ").collect();
    for (x, y) in sa.iter().zip(sb.iter()) {
        if x != y {
            let name = x.split(':').next().unwrap_or("?");
            let name = name.rsplit(['{', ' ', '(']).next().unwrap_or(name);
            return name.trim().to_owned();
        }
    }
    "shape".into()
}

struct AssertSend<T>(T);
// SAFETY: only constructed around a handle for which `AnyGD::sendable()` holds,
// i.e. whose live variant is `Send` in this build; the other variants are not present.
unsafe impl<T> Send for AssertSend<T> {}

const INTERLEAVE_MAP: &str = "osu file format v14\n[General]\nMode: 0\n[Difficulty]\nHPDrainRate:5\nCircleSize:4\nOverallDifficulty:8\nApproachRate:9\nSliderMultiplier:1.4\nSliderTickRate:1\n[TimingPoints]\n0,400,4,2,0,100,1,0\n[HitObjects]\n100,100,400,1,0,0:0:0:0:\n200,150,600,2,0,B|300:200|350:100,2,140\n300,250,1400,1,0,0:0:0:0:\n256,192,1800,12,0,2600,0:0:0:0:\n120,300,3000,1,0,0:0:0:0:\n";

fn interleave_work(round: u64) -> String {
    let map = sut::decode(INTERLEAVE_MAP);
    let target = (round % 4) as usize;
    let d = rosu_pp::Difficulty::new().mods(if round % 2 == 0 { 0u32 } else { 64 + 16 });
    sut::oneshot_diff(&d, &map, target).unwrap_or_default()
}

struct Built {
    g: AnyGD,
}

fn build_gd(c: &GradCase, map: &rosu_pp::Beatmap) -> Result<Result<Built, String>, String> {
    guard(|| {
        if c.drop_map_early {
            let tmp = Box::new(map.clone());
            let r = AnyGD::new(c.diff.build(), &tmp, c.target, c.api_enum);
            drop(tmp);
            // disturb the heap the dropped map lived in
            let junk: Vec<Vec<u8>> = (0..8).map(|i| vec![0xA5u8; 64 << i]).collect();
            drop(junk);
            r.map(|g| Built { g })
        } else {
            AnyGD::new(c.diff.build(), map, c.target, c.api_enum).map(|g| Built { g })
        }
    })
}

fn do_move(g: AnyGD, kind: u8, c: &GradCase, map: &rosu_pp::Beatmap, st: &mut Stats) -> AnyGD {
    match kind {
        0 => {
            st.fault("move_box");
            let b = Box::new(g);
            let junk = vec![0u8; 4096];
            let g = *b;
            drop(junk);
            g
        }
        1 => {
            st.fault("move_vec_growth");
            let mut v: Vec<AnyGD> = Vec::with_capacity(1);
            v.push(g);
            for _ in 0..3 {
                if let Ok(x) = AnyGD::new(c.diff.build(), map, c.target, c.api_enum) {
                    v.push(x); // forces reallocation: elements are memmoved
                }
            }
            v.swap_remove(0)
        }
        2 => {
            st.fault("move_swap");
            let mut g = g;
            if let Ok(mut other) = AnyGD::new(c.diff.build(), map, c.target, c.api_enum) {
                let _ = other.next();
                mem::swap(&mut g, &mut other);
                let _ = g.next(); // the other instance advances while ours is parked
                mem::swap(&mut g, &mut other);
            }
            g
        }
        _ => {
            if g.sendable() {
                st.fault("move_thread_hop");
                let w = AssertSend(g);
                let w = std::thread::scope(|s| s.spawn(move || w).join().expect("hop thread"));
                w.0
            } else {
                st.probe("thread_hop_skipped_not_send");
                g
            }
        }
    }
}

fn next_on_thread(g: AnyGD, st: &mut Stats) -> (AnyGD, Result<Option<String>, String>) {
    if g.sendable() {
        st.fault("next_on_thread");
        let w = AssertSend(g);
        let (w, r) = std::thread::scope(|s| {
            s.spawn(move || {
                let mut w = w;
                let r = guard(|| w.0.next());
                (w, r)
            })
            .join()
            .expect("step thread")
        });
        (w.0, r)
    } else {
        st.probe("thread_step_skipped_not_send");
        let mut g = g;
        let r = guard(|| g.next());
        (g, r)
    }
}

fn valid_target(map: &rosu_pp::Beatmap, target: usize) -> bool {
    let mm = crate::spec::mode_idx(map.mode);
    mm == target || (mm == 0 && !map.is_convert)
}

// ------------------------------------------------------------ C02

fn exec_c02(c: &GradCase, st: &mut Stats) -> Option<Violation> {
    let mode = mode_name(c.target);
    let text = c.map.render();
    let map = sut::decode(&text);
    if !valid_target(&map, c.target) {
        st.probe("skipped_invalid_target");
        return None;
    }
    let pristine = map.clone();
    let built = match build_gd(c, &map) {
        Err(p) => {
            return Some(Violation::new(
                format!("C02/{mode}/panic-in-new@{}", panic_site(&p)),
                p,
            ))
        }
        Ok(Err(e)) => {
            st.probe("ctor_convert_error");
            let _ = e;
            return None;
        }
        Ok(Ok(b)) => b,
    };
    let mut g = built.g;
    if c.drop_map_early {
        st.fault("drop_map_early");
    }
    let announced = match guard(|| g.len()) {
        Ok(n) => n,
        Err(p) => {
            return Some(Violation::new(
                format!("C02/{mode}/panic-in-len@{}", panic_site(&p)),
                p,
            ))
        }
    };
    let n_obj = map.hit_objects.len();
    st.probe(match n_obj {
        0 => "map_0_objects",
        1 => "map_1_object",
        2 => "map_2_objects",
        3 => "map_3_objects",
        _ => "map_4plus_objects",
    });
    if let Some(h) = map.hit_objects.first() {
        if !h.is_circle() {
            st.probe("first_object_not_circle");
        }
    }
    let cap = announced.min(1 << 20).max(n_obj) * 8 + 64;
    let mut seen: Vec<String> = Vec::new();
    let mut ops = c.ops.iter();
    let mut round = 0u64;
    loop {
        // next op from the list; once exhausted, plain `next` until None
        let op = ops.next().cloned().unwrap_or(GOp::Next);
        st.ops += 1;
        let got = match op {
            GOp::Crash => {
                st.fault("crash_restart");
                st.probe(match seen.len() {
                    0 => "restart_at_0",
                    1 => "restart_at_1",
                    2 => "restart_at_2",
                    _ => "restart_at_3plus",
                });
                drop(g);
                g = match build_gd(c, &map) {
                    Ok(Ok(b)) => b.g,
                    Ok(Err(e)) => {
                        return Some(Violation::new(format!("C02/{mode}/restart-ctor-error"), e))
                    }
                    Err(p) => {
                        return Some(Violation::new(
                            format!("C02/{mode}/panic-in-new@{}", panic_site(&p)),
                            p,
                        ))
                    }
                };
                for (i, old) in seen.iter().enumerate() {
                    match guard(|| g.next()) {
                        Ok(Some(v)) if v == *old => {}
                        Ok(other) => {
                            return Some(Violation::new(
                                format!("C02/{mode}/restart-divergence"),
                                format!(
                                    "after restart, step {} gave {:?}, before the crash it gave {}",
                                    i + 1,
                                    other,
                                    old
                                ),
                            ))
                        }
                        Err(p) => {
                            return Some(Violation::new(
                                format!("C02/{mode}/panic-in-next@{}", panic_site(&p)),
                                p,
                            ))
                        }
                    }
                }
                continue;
            }
            GOp::Move(k) => {
                g = do_move(g, k, c, &map, st);
                continue;
            }
            GOp::Interleave => {
                st.fault("interleave");
                round += 1;
                let a = interleave_work(round);
                let b = interleave_work(round);
                if a != b {
                    return Some(Violation::new(
                        "C02/interleave-nondeterministic",
                        format!("{a} vs {b}"),
                    ));
                }
                continue;
            }
            GOp::NextOnThread => {
                let (g2, r) = next_on_thread(g, st);
                g = g2;
                r
            }
            _ => guard(|| g.next()),
        };
        let got = match got {
            Ok(v) => v,
            Err(p) => {
                return Some(Violation::new(
                    format!("C02/{mode}/panic-in-next@{}", panic_site(&p)),
                    p,
                ))
            }
        };
        match got {
            Some(v) => {
                let i = seen.len() + 1;
                if i > cap {
                    return Some(Violation::new(
                        format!("C02/{mode}/never-ends"),
                        format!("{i} values and counting; announced {announced}"),
                    ));
                }
                let d = c.diff.with_passed(i as u32);
                let exp = match guard(|| sut::oneshot_diff(&d, &map, c.target)) {
                    Ok(Ok(e)) => e,
                    Ok(Err(e)) => {
                        return Some(Violation::new(format!("C02/{mode}/model-convert-error"), e))
                    }
                    Err(p) => {
                        st.probe("model_panic");
                        return Some(Violation::new(
                            format!("C02/{mode}/panic-in-oneshot@{}", panic_site(&p)),
                            p,
                        ));
                    }
                };
                if v != exp {
                    let f = first_diff_field(&v, &exp);
                    return Some(Violation::new(
                        format!("C02/{mode}/value-mismatch@{f}"),
                        format!("step {i}: gradual {v} != passed_objects({i}) {exp}"),
                    ));
                }
                seen.push(v);
            }
            None => break,
        }
    }
    let count = seen.len();
    if count != announced {
        let dir = if count < announced { "fewer" } else { "more" };
        return Some(Violation::new(
            format!("C02/{mode}/count-vs-announced/{dir}"),
            format!("announced len()={announced} on creation, produced {count} values"),
        ));
    }
    if let Some(last) = seen.last() {
        let full = match guard(|| sut::oneshot_diff(&c.diff.build(), &map, c.target)) {
            Ok(Ok(e)) => e,
            _ => return None,
        };
        if *last != full {
            let f = first_diff_field(last, &full);
            return Some(Violation::new(
                format!("C02/{mode}/final-vs-full@{f}"),
                format!("final gradual value {last} != full calculation {full}"),
            ));
        }
    } else {
        // no values at all: the one-shot calculator must see no steps either
        if let Ok(Ok(t)) = guard(|| sut::oneshot_total(&c.diff.build(), &map, c.target)) {
            if t != 0 {
                return Some(Violation::new(
                    format!("C02/{mode}/no-values-but-oneshot-has-{}", t.min(3)),
                    format!("gradual produced nothing; one-shot counts {t} steps"),
                ));
            }
        }
    }
    if map != pristine && format!("{map:?}") != format!("{pristine:?}") {
        return Some(Violation::new("C02/map-mutated", "map changed"));
    }
    None
}

// ------------------------------------------------------------ C15

fn plain_values(c: &GradCase, map: &rosu_pp::Beatmap, mode: &str) -> Result<Vec<String>, Violation> {
    let mut twin = match guard(|| AnyGD::new(c.diff.build(), map, c.target, c.api_enum)) {
        Ok(Ok(g)) => g,
        Ok(Err(e)) => return Err(Violation::new("skip", e)),
        Err(p) => {
            return Err(Violation::new(
                format!("C15/{mode}/panic-in-new@{}", panic_site(&p)),
                p,
            ))
        }
    };
    let cap = map.hit_objects.len() * 600 + 4096;
    let mut v = Vec::new();
    loop {
        match guard(|| twin.next()) {
            Ok(Some(x)) => {
                v.push(x);
                if v.len() > cap {
                    return Err(Violation::new(
                        format!("C15/{mode}/next-never-ends"),
                        format!("{} values from plain next()", v.len()),
                    ));
                }
            }
            Ok(None) => break,
            Err(p) => {
                return Err(Violation::new(
                    format!("C15/{mode}/panic-in-next@{}", panic_site(&p)),
                    p,
                ))
            }
        }
    }
    // exhausted: further calls keep returning None
    for _ in 0..2 {
        match guard(|| twin.next()) {
            Ok(None) => {}
            Ok(Some(_)) => {
                return Err(Violation::new(
                    format!("C15/{mode}/next-after-exhaustion-returns-value"),
                    "next() returned Some after None",
                ))
            }
            Err(p) => {
                return Err(Violation::new(
                    format!("C15/{mode}/panic-after-exhaustion@{}", panic_site(&p)),
                    p,
                ))
            }
        }
    }
    Ok(v)
}

fn expect_seq(mode: &str, what: &str, got: &[String], exp: &[String]) -> Option<Violation> {
    if got == exp {
        return None;
    }
    let class = if got.len() != exp.len() {
        "length"
    } else {
        "values"
    };
    Some(Violation::new(
        format!("C15/{mode}/adaptor-{what}/{class}"),
        format!(
            "{what}: got {} values, plain iteration gives {}; first difference at {}",
            got.len(),
            exp.len(),
            got.iter()
                .zip(exp.iter())
                .position(|(a, b)| a != b)
                .unwrap_or(got.len().min(exp.len()))
        ),
    ))
}

fn exec_c15(c: &GradCase, st: &mut Stats) -> Option<Violation> {
    let mode = mode_name(c.target);
    let text = c.map.render();
    let map = sut::decode(&text);
    if !valid_target(&map, c.target) {
        st.probe("skipped_invalid_target");
        return None;
    }
    let v = match plain_values(c, &map, mode) {
        Ok(v) => v,
        Err(e) if e.key == "skip" => {
            st.probe("ctor_convert_error");
            return None;
        }
        Err(e) => return Some(e),
    };
    let total = v.len();
    st.probe(match total {
        0 => "seq_len_0",
        1 => "seq_len_1",
        2 => "seq_len_2",
        3 => "seq_len_3",
        _ => "seq_len_4plus",
    });
    let mut g = match build_gd(c, &map) {
        Ok(Ok(b)) => b.g,
        Ok(Err(_)) => return None,
        Err(p) => {
            return Some(Violation::new(
                format!("C15/{mode}/panic-in-new@{}", panic_site(&p)),
                p,
            ))
        }
    };
    if c.drop_map_early {
        st.fault("drop_map_early");
    }
    let mut p = 0usize;
    let mut round = 0;
    let pan = |what: &str, pm: String| {
        Violation::new(format!("C15/{mode}/panic-in-{what}@{}", panic_site(&pm)), pm)
    };
    let mut ops: Vec<GOp> = c.ops.clone();
    // every history ends with the exhaustion probe (part of the oracle, not of the schedule)
    let terminal = ops.last().is_some_and(|o| {
        matches!(
            o,
            GOp::StepBy(_)
                | GOp::Skip(_)
                | GOp::Take(_)
                | GOp::Last
                | GOp::Count
                | GOp::Collect
                | GOp::ZipTwin
                | GOp::ByRefNthThenCollect(_)
        )
    });
    let term = if terminal { ops.pop() } else { None };
    for op in &ops {
        st.ops += 1;
        match op {
            GOp::Next | GOp::NextOnThread => {
                let got = if *op == GOp::NextOnThread {
                    let (g2, r) = next_on_thread(g, st);
                    g = g2;
                    r
                } else {
                    guard(|| g.next())
                };
                let got = match got {
                    Ok(x) => x,
                    Err(pm) => return Some(pan("next", pm)),
                };
                let exp = v.get(p).cloned();
                if p < total {
                    p += 1;
                } else {
                    st.probe("next_after_end");
                }
                if got != exp {
                    let class = match (&got, &exp) {
                        (Some(_), None) => "next-after-end-returns-value",
                        (None, Some(_)) => "next-none-early",
                        _ => "next-wrong-value",
                    };
                    return Some(Violation::new(
                        format!("C15/{mode}/{class}"),
                        format!("at position {p}/{total}: got {got:?}, expected {exp:?}"),
                    ));
                }
            }
            GOp::Nth(k) => {
                let k = usize::try_from(*k).unwrap_or(usize::MAX);
                let got = match guard(|| g.nth(k)) {
                    Ok(x) => x,
                    Err(pm) => return Some(pan("nth", pm)),
                };
                let p0 = p;
                let exp = match p.checked_add(k) {
                    Some(i) if i < total => {
                        p = i + 1;
                        Some(v[i].clone())
                    }
                    _ => {
                        st.probe("nth_beyond_end");
                        p = total;
                        None
                    }
                };
                if p0 == 0 && k > 0 {
                    st.probe("nth_k>0_from_start");
                }
                if got != exp {
                    let class = match (&got, &exp) {
                        (Some(_), None) => "nth-past-end-returns-value",
                        (None, Some(_)) => "nth-none-early",
                        _ => "nth-wrong-value",
                    };
                    return Some(Violation::new(
                        format!("C15/{mode}/{class}"),
                        format!(
                            "nth({k}) at position {p0}/{total}: got {got:?}, n+1 next() calls give {exp:?}"
                        ),
                    ));
                }
            }
            GOp::Len | GOp::SizeHint => {
                let exp = total - p;
                let got = if *op == GOp::Len {
                    guard(|| g.len()).map(|n| (n, Some(n)))
                } else {
                    guard(|| g.size_hint())
                };
                let got = match got {
                    Ok(x) => x,
                    Err(pm) => return Some(pan("len", pm)),
                };
                if got != (exp, Some(exp)) {
                    let class = if total == 0 {
                        "len-on-empty-sequence"
                    } else if p == total {
                        "len-after-exhaustion"
                    } else {
                        "len-mismatch"
                    };
                    return Some(Violation::new(
                        format!("C15/{mode}/{class}"),
                        format!(
                            "len/size_hint at position {p}/{total}: got {got:?}, {exp} values still to come"
                        ),
                    ));
                }
            }
            GOp::Crash => {
                st.fault("crash_restart");
                st.probe(match p {
                    0 => "restart_at_0",
                    1 => "restart_at_1",
                    2 => "restart_at_2",
                    _ => "restart_at_3plus",
                });
                drop(g);
                g = match build_gd(c, &map) {
                    Ok(Ok(b)) => b.g,
                    _ => return Some(Violation::new(format!("C15/{mode}/restart-ctor"), "")),
                };
                if p > 0 {
                    // fast-forward with a single nth: the contract under test
                    let got = match guard(|| g.nth(p - 1)) {
                        Ok(x) => x,
                        Err(pm) => return Some(pan("nth", pm)),
                    };
                    let exp = Some(v[p - 1].clone());
                    if got != exp {
                        return Some(Violation::new(
                            format!("C15/{mode}/restart-nth-wrong-value"),
                            format!("restart to position {p}: nth({}) gave {got:?}, expected {exp:?}", p - 1),
                        ));
                    }
                }
            }
            GOp::Move(k) => g = do_move(g, *k, c, &map, st),
            GOp::Interleave => {
                st.fault("interleave");
                round += 1;
                let _ = interleave_work(round);
            }
            _ => {}
        }
    }
    let rest: Vec<String> = v[p..].to_vec();
    match term {
        None => {
            // drain and probe exhaustion
            let drained = match guard(|| {
                let mut out = Vec::new();
                while let Some(x) = g.next() {
                    out.push(x);
                    if out.len() > rest.len() + 8 {
                        break;
                    }
                }
                out
            }) {
                Ok(x) => x,
                Err(pm) => return Some(pan("next", pm)),
            };
            if let Some(e) = expect_seq(mode, "drain", &drained, &rest) {
                return Some(e);
            }
            for k in [0usize, 0, 3, usize::MAX] {
                match guard(|| (g.nth(k), g.len(), g.size_hint())) {
                    Ok((None, 0, (0, Some(0)))) => {}
                    Ok((x, l, sh)) => {
                        let class = if x.is_some() {
                            "exhausted-returns-value"
                        } else {
                            "len-after-exhaustion"
                        };
                        return Some(Violation::new(
                            format!("C15/{mode}/{class}"),
                            format!("after exhaustion nth({k}) -> {x:?}, len {l}, size_hint {sh:?}"),
                        ));
                    }
                    Err(pm) => {
                        return Some(Violation::new(
                            format!("C15/{mode}/panic-after-exhaustion@{}", panic_site(&pm)),
                            pm,
                        ))
                    }
                }
            }
            st.probe("exhaustion_probed");
        }
        Some(t) => {
            st.ops += 1;
            st.fault(&format!("adaptor_{}", t.kind()));
            let r: Result<Option<Violation>, String> = guard(|| match &t {
                GOp::StepBy(s) => {
                    let s = usize::try_from(*s).unwrap_or(usize::MAX).max(1);
                    let got: Vec<String> = each_gd!(g, it => it.step_by(s).map(|a| a.dig()).collect());
                    let exp: Vec<String> = rest.iter().step_by(s).cloned().collect();
                    expect_seq(mode, "step_by", &got, &exp)
                }
                GOp::Skip(n) => {
                    let n = usize::try_from(*n).unwrap_or(usize::MAX);
                    let got: Vec<String> = each_gd!(g, it => it.skip(n).map(|a| a.dig()).collect());
                    let exp: Vec<String> = rest.iter().skip(n).cloned().collect();
                    expect_seq(mode, "skip", &got, &exp)
                }
                GOp::Take(n) => {
                    let n = usize::try_from(*n).unwrap_or(usize::MAX);
                    let got: Vec<String> = each_gd!(g, it => it.take(n).map(|a| a.dig()).collect());
                    let exp: Vec<String> = rest.iter().take(n).cloned().collect();
                    expect_seq(mode, "take", &got, &exp)
                }
                GOp::Last => {
                    let got: Vec<String> =
                        each_gd!(g, it => it.last().map(|a| a.dig())).into_iter().collect();
                    let exp: Vec<String> = rest.last().cloned().into_iter().collect();
                    expect_seq(mode, "last", &got, &exp)
                }
                GOp::Count => {
                    let got = each_gd!(g, it => it.count());
                    if got == rest.len() {
                        None
                    } else {
                        Some(Violation::new(
                            format!("C15/{mode}/adaptor-count/length"),
                            format!("count() = {got}, plain iteration has {}", rest.len()),
                        ))
                    }
                }
                GOp::Collect => {
                    let got: Vec<String> = each_gd!(g, it => it.map(|a| a.dig()).collect());
                    expect_seq(mode, "collect", &got, &rest)
                }
                GOp::ZipTwin => {
                    let idx: Vec<usize> = (0..rest.len() + 3).collect();
                    let got: Vec<String> =
                        each_gd!(g, it => idx.iter().zip(it).map(|(_, a)| a.dig()).collect());
                    expect_seq(mode, "zip", &got, &rest)
                }
                GOp::ByRefNthThenCollect(k) => {
                    let k = usize::try_from(*k).unwrap_or(usize::MAX);
                    let got: Vec<String> = each_gd!(g, it => {
                        let mut it = it;
                        let first = it.by_ref().nth(k).map(|a| a.dig());
                        let mut out: Vec<String> = first.into_iter().collect();
                        out.extend(it.map(|a| a.dig()));
                        out
                    });
                    let exp: Vec<String> = rest.iter().skip(k).cloned().collect();
                    expect_seq(mode, "by_ref_nth_collect", &got, &exp)
                }
                _ => None,
            });
            match r {
                Ok(Some(v)) => return Some(v),
                Ok(None) => {}
                Err(pm) => return Some(pan("adaptor", pm)),
            }
        }
    }
    None
}

// ------------------------------------------------------------ C03

fn build_gp(c: &GradCase, map: &rosu_pp::Beatmap) -> Result<Result<AnyGP, String>, String> {
    guard(|| {
        if c.drop_map_early {
            let tmp = Box::new(map.clone());
            let r = AnyGP::new(c.diff.build(), &tmp, c.target, c.api_enum);
            drop(tmp);
            r
        } else {
            AnyGP::new(c.diff.build(), map, c.target, c.api_enum)
        }
    })
}

fn exec_c03(c: &GradCase, st: &mut Stats) -> Option<Violation> {
    let mode = mode_name(c.target);
    let text = c.map.render();
    let map = sut::decode(&text);
    if !valid_target(&map, c.target) {
        st.probe("skipped_invalid_target");
        return None;
    }
    let total = match guard(|| sut::oneshot_total(&c.diff.build(), &map, c.target)) {
        Ok(Ok(t)) => t,
        Ok(Err(_)) => return None,
        Err(_) => {
            st.probe("model_panic");
            return None;
        }
    };
    let mut g = match build_gp(c, &map) {
        Ok(Ok(g)) => g,
        Ok(Err(_)) => return None,
        Err(p) => {
            return Some(Violation::new(
                format!("C03/{mode}/panic-in-new@{}", panic_site(&p)),
                p,
            ))
        }
    };
    if c.drop_map_early {
        st.fault("drop_map_early");
    }
    let mut p = 0usize;
    let mut round = 0;
    for op in &c.ops {
        st.ops += 1;
        let (what, state, k): (&str, &StateSpec, Option<usize>) = match op {
            GOp::PNext(s) => ("next", s, Some(0)),
            GOp::PNth(s, k) => ("nth", s, Some(usize::try_from(*k).unwrap_or(usize::MAX))),
            GOp::PLast(s) => ("last", s, None),
            GOp::PLen => {
                match guard(|| g.len()) {
                    Ok(n) if n == total - p => {}
                    Ok(n) => {
                        return Some(Violation::new(
                            format!("C03/{mode}/len-mismatch"),
                            format!("len() = {n} at position {p}/{total}"),
                        ))
                    }
                    Err(pm) => {
                        return Some(Violation::new(
                            format!("C03/{mode}/panic-in-len@{}", panic_site(&pm)),
                            pm,
                        ))
                    }
                }
                continue;
            }
            GOp::Crash => {
                st.fault("crash_restart");
                drop(g);
                g = match build_gp(c, &map) {
                    Ok(Ok(g)) => g,
                    _ => return Some(Violation::new(format!("C03/{mode}/restart-ctor"), "")),
                };
                if p > 0 {
                    match guard(|| g.nth(StateSpec::default().build(), p - 1)) {
                        Ok(Some(_)) => {}
                        Ok(None) => {
                            return Some(Violation::new(
                                format!("C03/{mode}/restart-nth-none"),
                                format!("restart to position {p}/{total}: nth(_, {}) returned None", p - 1),
                            ))
                        }
                        Err(pm) => {
                            return Some(Violation::new(
                                format!("C03/{mode}/panic-in-nth@{}", panic_site(&pm)),
                                pm,
                            ))
                        }
                    }
                }
                continue;
            }
            GOp::Interleave => {
                st.fault("interleave");
                round += 1;
                let _ = interleave_work(round);
                continue;
            }
            GOp::Move(kind) => {
                match kind {
                    0 => {
                        st.fault("move_box");
                        let b = Box::new(g);
                        g = *b;
                    }
                    1 => {
                        st.fault("move_vec_growth");
                        let mut v = Vec::with_capacity(1);
                        v.push(g);
                        for _ in 0..3 {
                            if let Ok(x) = AnyGP::new(c.diff.build(), &map, c.target, c.api_enum) {
                                v.push(x);
                            }
                        }
                        g = v.swap_remove(0);
                    }
                    _ => {
                        st.fault("move_swap");
                        if let Ok(mut other) =
                            AnyGP::new(c.diff.build(), &map, c.target, c.api_enum)
                        {
                            mem::swap(&mut g, &mut other);
                            let _ = g.next(StateSpec::default().build());
                            mem::swap(&mut g, &mut other);
                        }
                    }
                }
                continue;
            }
            _ => continue,
        };
        let rem = total - p;
        let p0 = p;
        let expect_some = rem > 0;
        if expect_some {
            p += match k {
                Some(k) => k.saturating_add(1).min(rem),
                None => rem,
            };
            if k.is_some_and(|k| k >= rem) {
                st.probe("pnth_beyond_end");
            }
        } else {
            st.probe("op_after_end");
        }
        let sstate = state.build();
        let got = guard(|| match (what, k) {
            ("next", _) => g.next(sstate.clone()),
            ("nth", Some(k)) => g.nth(sstate.clone(), k),
            _ => g.last(sstate.clone()),
        });
        let got = match got {
            Ok(x) => x,
            Err(pm) => {
                // does the one-shot path panic on the same input? then it is not a refinement matter
                let model = guard(|| {
                    sut::oneshot_perf(c.diff.build(), &map, c.target, Some(p as u32), state.build())
                });
                if model.is_err() {
                    st.probe("both_paths_panic");
                    return None;
                }
                return Some(Violation::new(
                    format!("C03/{mode}/panic-in-{what}@{}", panic_site(&pm)),
                    pm,
                ));
            }
        };
        if got.is_some() != expect_some {
            let class = if got.is_some() {
                "value-after-end"
            } else {
                "none-while-objects-remain"
            };
            return Some(Violation::new(
                format!("C03/{mode}/{class}"),
                format!("{what}({k:?}) at position {p0}/{total} returned {}", if got.is_some() {"Some"} else {"None"}),
            ));
        }
        if let Some(v) = got {
            let exp = match guard(|| {
                sut::oneshot_perf(c.diff.build(), &map, c.target, Some(p as u32), state.build())
            }) {
                Ok(Ok(e)) => e,
                Ok(Err(_)) => return None,
                Err(_) => {
                    st.probe("model_panic");
                    return None;
                }
            };
            if v != exp {
                let f = first_diff_field(&v, &exp);
                return Some(Violation::new(
                    format!("C03/{mode}/value-mismatch@{f}"),
                    format!(
                        "{what}({k:?}) from {p0} to {p}/{total}: gradual {v} != one-shot passed_objects({p}) {exp}"
                    ),
                ));
            }
        }
    }
    None
}

// ------------------------------------------------------------ engines

macro_rules! grad_engine {
    ($name:ident, $prop:expr, $exec:ident, $sname:literal) => {
        pub struct $name;
        impl Engine for $name {
            type Case = GradCase;
            fn name() -> &'static str {
                $sname
            }
            fn gen(rng: &mut Rng, tier: Tier) -> GradCase {
                gen_case(rng, tier, $prop)
            }
            fn exec(case: &GradCase, stats: &mut Stats) -> Option<Violation> {
                $exec(case, stats)
            }
            fn simpler(case: &GradCase) -> Vec<GradCase> {
                case_simpler(case)
            }
            fn to_json(case: &GradCase) -> Value {
                case_to_json(case)
            }
            fn from_json(v: &Value) -> GradCase {
                case_from_json(v)
            }
            fn signature(case: &GradCase) -> u64 {
                signature(case)
            }
            fn nontrivial(case: &GradCase) -> bool {
                case.drop_map_early
                    || case.ops.iter().any(|o| !matches!(o, GOp::Next))
                    || case.map.objects.len() < 4
            }
        }
    };
}

grad_engine!(C02Engine, Prop::C02, exec_c02, "c02");
grad_engine!(C03Engine, Prop::C03, exec_c03, "c03");
grad_engine!(C15Engine, Prop::C15, exec_c15, "c15");

// ------------------------------------------------------------ C11: by-value consumers

/// Every gradual type handed *by value* to every kind of std consumer on a tiny map:
/// the shape in which a self-referential calculator is moved into a callee that reads
/// through it and drops it (what Miri's aliasing models are strictest about).
pub struct C11ConsumeEngine;

impl Engine for C11ConsumeEngine {
    type Case = GradCase;
    fn name() -> &'static str {
        "c11c"
    }
    fn gen(rng: &mut Rng, _tier: Tier) -> GradCase {
        let map_mode = rng.weighted(&[40, 20, 20, 20]);
        let mut sh = gen_shape(rng, map_mode, 6);
        sh.n = 2 + rng.usize(4);
        let map = gen_map(rng, &sh);
        let target = if map_mode == 0 { rng.usize(4) } else { map_mode };
        let mut ops = Vec::new();
        for _ in 0..rng.usize(3) {
            ops.push(if rng.chance(0.7) { GOp::Next } else { GOp::Move(rng.below(3) as u8) });
        }
        ops.push(match rng.below(8) {
            0 => GOp::StepBy(1 + rng.below(3)),
            1 => GOp::Skip(rng.below(3)),
            2 => GOp::Take(1 + rng.below(4)),
            3 => GOp::Last,
            4 => GOp::Count,
            5 => GOp::Collect,
            6 => GOp::ZipTwin,
            _ => GOp::ByRefNthThenCollect(rng.below(3)),
        });
        GradCase {
            prop: Prop::C15,
            map,
            target,
            api_enum: rng.chance(0.3),
            diff: if rng.chance(0.5) { DiffSpec::default() } else { gen_diff(rng, target) },
            drop_map_early: rng.chance(0.3),
            ops,
        }
    }
    fn exec(case: &GradCase, stats: &mut Stats) -> Option<Violation> {
        exec_c15(case, stats)
    }
    fn simpler(case: &GradCase) -> Vec<GradCase> {
        case_simpler(case)
    }
    fn to_json(case: &GradCase) -> Value {
        case_to_json(case)
    }
    fn from_json(v: &Value) -> GradCase {
        case_from_json(v)
    }
    fn signature(case: &GradCase) -> u64 {
        signature(case)
    }
    fn nontrivial(_case: &GradCase) -> bool {
        true
    }
}

//! Thin adapters over the real library: uniform handles for the five gradual
//! difficulty types and the five gradual performance types, one-shot reference
//! calculations, and canonical digests of returned values.
//!
//! A digest is the `Debug` rendering of the *mode-specific* value. Rust prints
//! floats with the shortest representation that round-trips, so two digests are
//! equal iff all fields are bit-equal (all NaNs print alike, which is what an
//! equality oracle wants).

use rosu_map::section::general::GameMode;
use rosu_pp::{
    any::{DifficultyAttributes, PerformanceAttributes, ScoreState, Strains},
    catch::{Catch, CatchGradualDifficulty, CatchGradualPerformance},
    mania::{Mania, ManiaGradualDifficulty, ManiaGradualPerformance},
    osu::{Osu, OsuGradualDifficulty, OsuGradualPerformance},
    taiko::{Taiko, TaikoGradualDifficulty, TaikoGradualPerformance},
    Beatmap, Difficulty, GradualDifficulty, GradualPerformance, Performance,
};

use crate::spec::MODES;

/// `-0.0` and `0.0` are the same number (`PartialEq` of the attribute types agrees), so digests
/// do not distinguish them: a check must not fail on a sign of zero.
pub fn nz(s: String) -> String {
    if s.contains("-0.0") {
        crate::trace::normalise_negative_zero(&s)
    } else {
        s
    }
}

pub fn decode(text: &str) -> Beatmap {
    Beatmap::from_bytes(text.as_bytes()).expect("harness: in-memory decode cannot fail")
}

pub fn dig_da(a: &DifficultyAttributes) -> String {
    match a {
        DifficultyAttributes::Osu(x) => nz(format!("{x:?}")),
        DifficultyAttributes::Taiko(x) => nz(format!("{x:?}")),
        DifficultyAttributes::Catch(x) => nz(format!("{x:?}")),
        DifficultyAttributes::Mania(x) => nz(format!("{x:?}")),
    }
}

pub fn dig_pa(a: &PerformanceAttributes) -> String {
    match a {
        PerformanceAttributes::Osu(x) => nz(format!("{x:?}")),
        PerformanceAttributes::Taiko(x) => nz(format!("{x:?}")),
        PerformanceAttributes::Catch(x) => nz(format!("{x:?}")),
        PerformanceAttributes::Mania(x) => nz(format!("{x:?}")),
    }
}

pub fn dig_strains(s: &Strains) -> String {
    match s {
        Strains::Osu(x) => nz(format!("{x:?}")),
        Strains::Taiko(x) => nz(format!("{x:?}")),
        Strains::Catch(x) => nz(format!("{x:?}")),
        Strains::Mania(x) => nz(format!("{x:?}")),
    }
}

/// One-shot difficulty for `target` mode (converting if necessary).
pub fn oneshot_diff(d: &Difficulty, map: &Beatmap, target: usize) -> Result<String, String> {
    let r = match target {
        0 => d.calculate_for_mode::<Osu>(map).map(|a| nz(format!("{a:?}"))),
        1 => d.calculate_for_mode::<Taiko>(map).map(|a| nz(format!("{a:?}"))),
        2 => d.calculate_for_mode::<Catch>(map).map(|a| nz(format!("{a:?}"))),
        _ => d.calculate_for_mode::<Mania>(map).map(|a| nz(format!("{a:?}"))),
    };
    r.map_err(|e| format!("convert error: {e:?}"))
}

pub fn oneshot_strains(d: &Difficulty, map: &Beatmap, target: usize) -> Result<String, String> {
    let r = match target {
        0 => d.strains_for_mode::<Osu>(map).map(|a| nz(format!("{a:?}"))),
        1 => d.strains_for_mode::<Taiko>(map).map(|a| nz(format!("{a:?}"))),
        2 => d.strains_for_mode::<Catch>(map).map(|a| nz(format!("{a:?}"))),
        _ => d.strains_for_mode::<Mania>(map).map(|a| nz(format!("{a:?}"))),
    };
    r.map_err(|e| format!("convert error: {e:?}"))
}

/// Number of gradual steps the one-shot calculator knows about: objects
/// (osu!, mania), hits (taiko), fruits + droplets (catch).
pub fn oneshot_total(d: &Difficulty, map: &Beatmap, target: usize) -> Result<usize, String> {
    let e = |e| format!("convert error: {e:?}");
    Ok(match target {
        0 => {
            let a = d.calculate_for_mode::<Osu>(map).map_err(e)?;
            (a.n_circles + a.n_sliders + a.n_spinners) as usize
        }
        1 => d.calculate_for_mode::<Taiko>(map).map_err(e)?.max_combo as usize,
        2 => {
            let a = d.calculate_for_mode::<Catch>(map).map_err(e)?;
            (a.n_fruits + a.n_droplets) as usize
        }
        _ => d.calculate_for_mode::<Mania>(map).map_err(e)?.n_objects as usize,
    })
}

/// One-shot performance on `map` for `target` with the given settings.
pub fn oneshot_perf(
    d: Difficulty,
    map: &Beatmap,
    target: usize,
    passed: Option<u32>,
    state: ScoreState,
) -> Result<String, String> {
    // settings first: `try_mode` converts the map with the mods known at that moment
    let mut p = Performance::new(map)
        .difficulty(d)
        .try_mode(MODES[target])
        .map_err(|_| "convert error".to_owned())?;
    if let Some(n) = passed {
        p = p.passed_objects(n);
    }
    Ok(dig_pa(&p.state(state).calculate()))
}

// ---------------------------------------------------------------- gradual difficulty

#[allow(clippy::large_enum_variant)]
pub enum AnyGD {
    E(GradualDifficulty),
    O(OsuGradualDifficulty),
    T(TaikoGradualDifficulty),
    C(CatchGradualDifficulty),
    M(ManiaGradualDifficulty),
}

#[macro_export]
macro_rules! each_gd {
    ($s:expr, $g:ident => $e:expr) => {
        match $s {
            $crate::sut::AnyGD::E($g) => $e,
            $crate::sut::AnyGD::O($g) => $e,
            $crate::sut::AnyGD::T($g) => $e,
            $crate::sut::AnyGD::C($g) => $e,
            $crate::sut::AnyGD::M($g) => $e,
        }
    };
}

pub trait Dig {
    fn dig(&self) -> String;
}
impl Dig for DifficultyAttributes {
    fn dig(&self) -> String {
        dig_da(self)
    }
}
macro_rules! dig_debug {
    ($($t:ty),*) => { $( impl Dig for $t { fn dig(&self) -> String { nz(format!("{self:?}")) } } )* };
}
dig_debug!(
    rosu_pp::osu::OsuDifficultyAttributes,
    rosu_pp::taiko::TaikoDifficultyAttributes,
    rosu_pp::catch::CatchDifficultyAttributes,
    rosu_pp::mania::ManiaDifficultyAttributes
);

impl AnyGD {
    pub fn new(d: Difficulty, map: &Beatmap, target: usize, api_enum: bool) -> Result<Self, String> {
        let e = |e| format!("convert error: {e:?}");
        if api_enum {
            return GradualDifficulty::new_with_mode(d, map, MODES[target])
                .map(AnyGD::E)
                .map_err(e);
        }
        match target {
            0 => OsuGradualDifficulty::new(d, map).map(AnyGD::O).map_err(e),
            1 => TaikoGradualDifficulty::new(d, map).map(AnyGD::T).map_err(e),
            2 => CatchGradualDifficulty::new(d, map).map(AnyGD::C).map_err(e),
            _ => ManiaGradualDifficulty::new(d, map).map(AnyGD::M).map_err(e),
        }
    }

    pub fn next(&mut self) -> Option<String> {
        each_gd!(self, g => g.next().map(|a| a.dig()))
    }
    pub fn nth(&mut self, n: usize) -> Option<String> {
        each_gd!(self, g => g.nth(n).map(|a| a.dig()))
    }
    pub fn len(&self) -> usize {
        each_gd!(self, g => g.len())
    }
    pub fn size_hint(&self) -> (usize, Option<usize>) {
        each_gd!(self, g => g.size_hint())
    }

    /// Is this handle `Send` in the current build?
    pub fn sendable(&self) -> bool {
        #[cfg(feature = "sync")]
        {
            true
        }
        #[cfg(not(feature = "sync"))]
        {
            matches!(self, AnyGD::O(_) | AnyGD::C(_) | AnyGD::M(_))
        }
    }
}

// ---------------------------------------------------------------- gradual performance

#[allow(clippy::large_enum_variant)]
pub enum AnyGP {
    E(GradualPerformance),
    O(OsuGradualPerformance),
    T(TaikoGradualPerformance),
    C(CatchGradualPerformance),
    M(ManiaGradualPerformance),
}

impl AnyGP {
    pub fn new(d: Difficulty, map: &Beatmap, target: usize, api_enum: bool) -> Result<Self, String> {
        let e = |e| format!("convert error: {e:?}");
        if api_enum {
            return GradualPerformance::new_with_mode(d, map, MODES[target])
                .map(AnyGP::E)
                .map_err(e);
        }
        match target {
            0 => OsuGradualPerformance::new(d, map).map(AnyGP::O).map_err(e),
            1 => TaikoGradualPerformance::new(d, map).map(AnyGP::T).map_err(e),
            2 => CatchGradualPerformance::new(d, map).map(AnyGP::C).map_err(e),
            _ => ManiaGradualPerformance::new(d, map).map(AnyGP::M).map_err(e),
        }
    }

    pub fn nth(&mut self, s: ScoreState, n: usize) -> Option<String> {
        match self {
            AnyGP::E(g) => g.nth(s, n).map(|a| dig_pa(&a)),
            AnyGP::O(g) => g.nth(s.into(), n).map(|a| nz(format!("{a:?}"))),
            AnyGP::T(g) => g.nth(s.into(), n).map(|a| nz(format!("{a:?}"))),
            AnyGP::C(g) => g.nth(s.into(), n).map(|a| nz(format!("{a:?}"))),
            AnyGP::M(g) => g.nth(s.into(), n).map(|a| nz(format!("{a:?}"))),
        }
    }
    pub fn next(&mut self, s: ScoreState) -> Option<String> {
        match self {
            AnyGP::E(g) => g.next(s).map(|a| dig_pa(&a)),
            AnyGP::O(g) => g.next(s.into()).map(|a| nz(format!("{a:?}"))),
            AnyGP::T(g) => g.next(s.into()).map(|a| nz(format!("{a:?}"))),
            AnyGP::C(g) => g.next(s.into()).map(|a| nz(format!("{a:?}"))),
            AnyGP::M(g) => g.next(s.into()).map(|a| nz(format!("{a:?}"))),
        }
    }
    pub fn last(&mut self, s: ScoreState) -> Option<String> {
        match self {
            AnyGP::E(g) => g.last(s).map(|a| dig_pa(&a)),
            AnyGP::O(g) => g.last(s.into()).map(|a| nz(format!("{a:?}"))),
            AnyGP::T(g) => g.last(s.into()).map(|a| nz(format!("{a:?}"))),
            AnyGP::C(g) => g.last(s.into()).map(|a| nz(format!("{a:?}"))),
            AnyGP::M(g) => g.last(s.into()).map(|a| nz(format!("{a:?}"))),
        }
    }
    pub fn len(&self) -> usize {
        match self {
            AnyGP::E(g) => g.len(),
            AnyGP::O(g) => g.len(),
            AnyGP::T(g) => g.len(),
            AnyGP::C(g) => g.len(),
            AnyGP::M(g) => g.len(),
        }
    }
}

pub fn gm(m: usize) -> GameMode {
    MODES[m]
}

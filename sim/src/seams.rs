//! Seams the simulator owns besides the reader: the allocator (junk fill, poison on
//! free, always-moving realloc) and the LD_PRELOAD shim (hash seeds, clock).

use std::{
    alloc::{GlobalAlloc, Layout, System},
    ffi::{c_char, c_void},
    sync::atomic::{AtomicU64, AtomicU8, Ordering},
};

// ------------------------------------------------------------ allocator

/// 0 = pass-through, otherwise fill fresh memory with this byte, poison freed
/// memory with its complement, and make every realloc move.
static ALLOC_JUNK: AtomicU8 = AtomicU8::new(0);
pub static ALLOC_CALLS: AtomicU64 = AtomicU64::new(0);
pub static REALLOC_MOVES: AtomicU64 = AtomicU64::new(0);

pub struct SimAlloc;

unsafe impl GlobalAlloc for SimAlloc {
    unsafe fn alloc(&self, layout: Layout) -> *mut u8 {
        let p = System.alloc(layout);
        let junk = ALLOC_JUNK.load(Ordering::Relaxed);
        if junk != 0 && !p.is_null() {
            ALLOC_CALLS.fetch_add(1, Ordering::Relaxed);
            std::ptr::write_bytes(p, junk, layout.size());
        }
        p
    }

    unsafe fn alloc_zeroed(&self, layout: Layout) -> *mut u8 {
        System.alloc_zeroed(layout)
    }

    unsafe fn dealloc(&self, ptr: *mut u8, layout: Layout) {
        let junk = ALLOC_JUNK.load(Ordering::Relaxed);
        if junk != 0 {
            std::ptr::write_bytes(ptr, !junk, layout.size());
        }
        System.dealloc(ptr, layout);
    }

    unsafe fn realloc(&self, ptr: *mut u8, layout: Layout, new_size: usize) -> *mut u8 {
        let junk = ALLOC_JUNK.load(Ordering::Relaxed);
        if junk == 0 {
            return System.realloc(ptr, layout, new_size);
        }
        let new_layout = Layout::from_size_align_unchecked(new_size, layout.align());
        let q = System.alloc(new_layout);
        if q.is_null() {
            return q;
        }
        REALLOC_MOVES.fetch_add(1, Ordering::Relaxed);
        let keep = layout.size().min(new_size);
        std::ptr::copy_nonoverlapping(ptr, q, keep);
        if new_size > keep {
            std::ptr::write_bytes(q.add(keep), junk, new_size - keep);
        }
        std::ptr::write_bytes(ptr, !junk, layout.size());
        System.dealloc(ptr, layout);
        q
    }
}

pub fn set_alloc_junk_get(b: u8) -> u8 {
    ALLOC_JUNK.swap(b, Ordering::Relaxed)
}

pub fn set_alloc_junk(b: u8) {
    ALLOC_JUNK.store(b, Ordering::Relaxed);
}

// ------------------------------------------------------------ shim

extern "C" {
    fn dlsym(handle: *mut c_void, symbol: *const c_char) -> *mut c_void;
}

fn sym(name: &'static [u8]) -> Option<*mut c_void> {
    // RTLD_DEFAULT == null on glibc
    let p = unsafe { dlsym(std::ptr::null_mut(), name.as_ptr().cast()) };
    if p.is_null() {
        None
    } else {
        Some(p)
    }
}

pub fn shim_present() -> bool {
    sym(b"verif_shim_present\0").is_some()
}

pub fn set_hash_seed(seed: u64) -> bool {
    match sym(b"verif_set_hash_seed\0") {
        Some(p) => {
            let f: extern "C" fn(u64) = unsafe { std::mem::transmute(p) };
            f(seed);
            true
        }
        None => false,
    }
}

pub fn set_clock(ns: i64, jitter: u64) -> bool {
    match sym(b"verif_set_clock\0") {
        Some(p) => {
            let f: extern "C" fn(i64, u64) = unsafe { std::mem::transmute(p) };
            f(ns, jitter);
            true
        }
        None => false,
    }
}

pub fn getrandom_calls() -> u64 {
    match sym(b"verif_getrandom_calls\0") {
        Some(p) => {
            let f: extern "C" fn() -> u64 = unsafe { std::mem::transmute(p) };
            f()
        }
        None => 0,
    }
}

pub fn clock_reads() -> u64 {
    match sym(b"verif_clock_reads\0") {
        Some(p) => {
            let f: extern "C" fn() -> u64 = unsafe { std::mem::transmute(p) };
            f()
        }
        None => 0,
    }
}

/// Iteration order of a fresh `HashMap` on the current thread: the observable the
/// shim self-test compares.
pub fn hash_order_probe() -> Vec<u32> {
    let mut m = std::collections::HashMap::new();
    for i in 0..16u32 {
        m.insert(i, ());
    }
    m.keys().copied().collect()
}

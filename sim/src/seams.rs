//! Seams the simulator owns besides the reader: the allocator (junk fill, poison on
//! free, always-moving realloc) and the LD_PRELOAD shim (hash seeds, clock).

use std::{
    alloc::{GlobalAlloc, Layout, System},
    ffi::{c_char, c_void},
    sync::atomic::{AtomicU64, AtomicU8, Ordering},
};

// ------------------------------------------------------------ allocator

/// 0 = pass-through, otherwise fill fresh memory with this byte, poison freed
/// memory with its complement, and make every realloc move.
static ALLOC_JUNK: AtomicU8 = AtomicU8::new(0);
pub static ALLOC_CALLS: AtomicU64 = AtomicU64::new(0);
pub static REALLOC_MOVES: AtomicU64 = AtomicU64::new(0);

// ---- deterministic arena: heap *addresses* as a pure function of the run --------------------
//
// While the arena is on, every allocation is served from one region mapped at a fixed address,
// with power-of-two size classes and LIFO free lists (a freed block is the next one handed out
// for its class, like a thread cache). `arena_reset` at the start of a run makes the sequence of
// addresses depend on nothing but the run's own allocation sequence, in any process: a result
// that depends on the identity of a reused address replays exactly.

const ARENA_BASE: usize = 0x6000_0000_0000;
const ARENA_SIZE: usize = 8 << 30;
const N_CLASSES: usize = 40;

struct Arena {
    base: usize,
    bump: usize,
    free: [usize; N_CLASSES],
}

static ARENA_ON: std::sync::atomic::AtomicBool = std::sync::atomic::AtomicBool::new(false);
static ARENA_LOCK: std::sync::atomic::AtomicBool = std::sync::atomic::AtomicBool::new(false);
static mut ARENA: Arena = Arena { base: 0, bump: 0, free: [0; N_CLASSES] };
pub static ARENA_ALLOCS: AtomicU64 = AtomicU64::new(0);
pub static ARENA_REUSES: AtomicU64 = AtomicU64::new(0);

extern "C" {
    fn mmap(addr: *mut c_void, len: usize, prot: i32, flags: i32, fd: i32, off: i64) -> *mut c_void;
}

struct ArenaGuard;
impl ArenaGuard {
    fn lock() -> Self {
        while ARENA_LOCK
            .compare_exchange_weak(false, true, Ordering::Acquire, Ordering::Relaxed)
            .is_err()
        {
            std::hint::spin_loop();
        }
        ArenaGuard
    }
}
impl Drop for ArenaGuard {
    fn drop(&mut self) {
        ARENA_LOCK.store(false, Ordering::Release);
    }
}

fn class_of(layout: &Layout) -> usize {
    let need = layout.size().max(layout.align()).max(16);
    need.next_power_of_two().trailing_zeros() as usize
}

fn in_arena(p: *mut u8) -> bool {
    let a = p as usize;
    // SAFETY: base is written once before the arena is ever switched on
    let base = unsafe { (*std::ptr::addr_of!(ARENA)).base };
    base != 0 && a >= base && a < base + ARENA_SIZE
}

unsafe fn arena_alloc(layout: Layout) -> *mut u8 {
    let c = class_of(&layout);
    if c >= N_CLASSES {
        return std::ptr::null_mut();
    }
    let _g = ArenaGuard::lock();
    let a = &mut *std::ptr::addr_of_mut!(ARENA);
    ARENA_ALLOCS.fetch_add(1, Ordering::Relaxed);
    let head = a.free[c];
    if head != 0 {
        a.free[c] = *(head as *const usize);
        ARENA_REUSES.fetch_add(1, Ordering::Relaxed);
        return head as *mut u8;
    }
    let size = 1usize << c;
    let align = size.min(4096);
    let start = (a.bump + align - 1) & !(align - 1);
    if start + size > a.base + ARENA_SIZE {
        return std::ptr::null_mut();
    }
    a.bump = start + size;
    start as *mut u8
}

unsafe fn arena_free(ptr: *mut u8, layout: Layout) {
    let c = class_of(&layout);
    let _g = ArenaGuard::lock();
    let a = &mut *std::ptr::addr_of_mut!(ARENA);
    *(ptr as *mut usize) = a.free[c];
    a.free[c] = ptr as usize;
}

/// Maps the region (once) and forgets every block: the next run starts from an empty heap.
/// Everything allocated while the arena was on must be dead by now.
pub fn arena_reset() -> bool {
    let _g = ArenaGuard::lock();
    // SAFETY: guarded by the spin lock; the region is private to this allocator
    unsafe {
        let a = &mut *std::ptr::addr_of_mut!(ARENA);
        if a.base == 0 {
            // PROT_READ|PROT_WRITE, MAP_PRIVATE|MAP_ANONYMOUS|MAP_NORESERVE|MAP_FIXED_NOREPLACE
            let p = mmap(ARENA_BASE as *mut c_void, ARENA_SIZE, 3, 0x02 | 0x20 | 0x4000 | 0x10_0000, -1, 0);
            if p as isize == -1 || p as usize != ARENA_BASE {
                return false;
            }
            a.base = ARENA_BASE;
        }
        a.bump = a.base;
        a.free = [0; N_CLASSES];
    }
    true
}

pub fn arena_on(on: bool) {
    ARENA_ON.store(on, Ordering::SeqCst);
}

pub struct SimAlloc;

unsafe impl GlobalAlloc for SimAlloc {
    unsafe fn alloc(&self, layout: Layout) -> *mut u8 {
        if ARENA_ON.load(Ordering::Relaxed) {
            let p = arena_alloc(layout);
            if !p.is_null() {
                let junk = ALLOC_JUNK.load(Ordering::Relaxed);
                if junk != 0 {
                    std::ptr::write_bytes(p, junk, layout.size());
                }
                return p;
            }
        }
        let p = System.alloc(layout);
        let junk = ALLOC_JUNK.load(Ordering::Relaxed);
        if junk != 0 && !p.is_null() {
            ALLOC_CALLS.fetch_add(1, Ordering::Relaxed);
            std::ptr::write_bytes(p, junk, layout.size());
        }
        p
    }

    unsafe fn alloc_zeroed(&self, layout: Layout) -> *mut u8 {
        if ARENA_ON.load(Ordering::Relaxed) {
            let p = arena_alloc(layout);
            if !p.is_null() {
                std::ptr::write_bytes(p, 0, layout.size());
                return p;
            }
        }
        System.alloc_zeroed(layout)
    }

    unsafe fn dealloc(&self, ptr: *mut u8, layout: Layout) {
        let junk = ALLOC_JUNK.load(Ordering::Relaxed);
        if in_arena(ptr) {
            if junk != 0 {
                std::ptr::write_bytes(ptr, !junk, layout.size());
            }
            arena_free(ptr, layout);
            return;
        }
        if junk != 0 {
            std::ptr::write_bytes(ptr, !junk, layout.size());
        }
        System.dealloc(ptr, layout);
    }

    unsafe fn realloc(&self, ptr: *mut u8, layout: Layout, new_size: usize) -> *mut u8 {
        let junk = ALLOC_JUNK.load(Ordering::Relaxed);
        if junk == 0 && !in_arena(ptr) && !ARENA_ON.load(Ordering::Relaxed) {
            return System.realloc(ptr, layout, new_size);
        }
        let new_layout = Layout::from_size_align_unchecked(new_size, layout.align());
        let q = self.alloc(new_layout);
        if q.is_null() {
            return q;
        }
        REALLOC_MOVES.fetch_add(1, Ordering::Relaxed);
        let keep = layout.size().min(new_size);
        std::ptr::copy_nonoverlapping(ptr, q, keep);
        self.dealloc(ptr, layout);
        q
    }
}

pub fn set_alloc_junk_get(b: u8) -> u8 {
    ALLOC_JUNK.swap(b, Ordering::Relaxed)
}

pub fn set_alloc_junk(b: u8) {
    ALLOC_JUNK.store(b, Ordering::Relaxed);
}

// ------------------------------------------------------------ shim

extern "C" {
    fn dlsym(handle: *mut c_void, symbol: *const c_char) -> *mut c_void;
}

fn sym(name: &'static [u8]) -> Option<*mut c_void> {
    // RTLD_DEFAULT == null on glibc
    let p = unsafe { dlsym(std::ptr::null_mut(), name.as_ptr().cast()) };
    if p.is_null() {
        None
    } else {
        Some(p)
    }
}

pub fn shim_present() -> bool {
    sym(b"verif_shim_present\0").is_some()
}

pub fn set_hash_seed(seed: u64) -> bool {
    match sym(b"verif_set_hash_seed\0") {
        Some(p) => {
            let f: extern "C" fn(u64) = unsafe { std::mem::transmute(p) };
            f(seed);
            true
        }
        None => false,
    }
}

pub fn set_clock(ns: i64, jitter: u64) -> bool {
    match sym(b"verif_set_clock\0") {
        Some(p) => {
            let f: extern "C" fn(i64, u64) = unsafe { std::mem::transmute(p) };
            f(ns, jitter);
            true
        }
        None => false,
    }
}

pub fn getrandom_calls() -> u64 {
    match sym(b"verif_getrandom_calls\0") {
        Some(p) => {
            let f: extern "C" fn() -> u64 = unsafe { std::mem::transmute(p) };
            f()
        }
        None => 0,
    }
}

pub fn clock_reads() -> u64 {
    match sym(b"verif_clock_reads\0") {
        Some(p) => {
            let f: extern "C" fn() -> u64 = unsafe { std::mem::transmute(p) };
            f()
        }
        None => 0,
    }
}

/// Iteration order of a fresh `HashMap` on the current thread: the observable the
/// shim self-test compares.
pub fn hash_order_probe() -> Vec<u32> {
    let mut m = std::collections::HashMap::new();
    for i in 0..16u32 {
        m.insert(i, ());
    }
    m.keys().copied().collect()
}

//! E5 for C05: stored-byte faults on real and generated files, then the whole public
//! pipeline on whatever still decodes and is inside the property's domain. Every call
//! is unwound separately; aborts, stack overflows, memory-limit hits and hangs are
//! caught one level up (the worker process dies or stalls and `check` isolates the run).

use rosu_pp::{
    model::hit_object::HitObjectKind, Beatmap, Difficulty, GameMods, Performance,
};
use serde_json::{json, Value};

use crate::{
    io::storage_fault,
    mapgen::{gen_convert_stress, gen_map, gen_shape, real_window},
    prng::{fnv, Rng},
    runner::{guard, panic_site, Engine, Stats, Tier, Violation},
    spec::{gen_diff, gen_score, gen_state, mode_idx, mode_name, DiffSpec, ModsSpec, ScoreSpec, StateSpec, MODES},
    sut::{self, AnyGD, AnyGP},
};

#[derive(Clone, Debug)]
pub struct PipeCase {
    pub content: Vec<u8>,
    pub storage_faults: Vec<String>,
    pub targets: Vec<usize>,
    pub diffs: Vec<DiffSpec>,
    pub scores: Vec<ScoreSpec>,
    pub states: Vec<StateSpec>,
    pub nth_pattern: Vec<u64>,
}

extern "C" {
    fn clock_gettime(clk: i32, ts: *mut [i64; 2]) -> i32;
}

/// CPU time of this thread in seconds (load on the machine does not count).
/// Uses the raw syscall-backed clock id 3 (CLOCK_THREAD_CPUTIME_ID); under the
/// LD_PRELOAD shim this engine is never run.
fn cpu_s() -> f64 {
    let mut ts = [0i64; 2];
    unsafe { clock_gettime(3, &mut ts) };
    ts[0] as f64 + ts[1] as f64 * 1e-9
}

/// "small time budget": typical calls take 0.05-50 ms on <= 300 objects; the limit is three orders of
/// magnitude above that and measured in CPU time of the calling thread so that load cannot trip it.
const SLOW_CALL_CPU_S: f64 = 30.0;

/// Mild faults: what a damaged but plausible file looks like (realistic domain).
fn mild_fault(rng: &mut Rng, data: &mut Vec<u8>) -> &'static str {
    let lines: Vec<Vec<u8>> = data.split_inclusive(|b| *b == b'\n').map(<[u8]>::to_vec).collect();
    if lines.len() < 2 {
        return "none";
    }
    let mut l = lines;
    match rng.weighted(&[20, 20, 20, 12, 28]) {
        0 => {
            let i = rng.usize(l.len());
            l.remove(i);
            *data = l.concat();
            "line_drop"
        }
        1 => {
            let i = rng.usize(l.len());
            let j = rng.usize(l.len() + 1);
            let x = l[i].clone();
            l.insert(j, x);
            *data = l.concat();
            "line_duplicate"
        }
        2 => {
            let i = rng.usize(l.len());
            let j = rng.usize(l.len());
            l.swap(i, j);
            *data = l.concat();
            "line_swap"
        }
        3 => {
            let a = rng.usize(l.len() - 1);
            let b = (a + 2 + rng.usize(8)).min(l.len());
            rng.shuffle(&mut l[a..b]);
            *data = l.concat();
            "line_shuffle_window"
        }
        _ => {
            // replace one number by another of editor-like magnitude
            let text = String::from_utf8_lossy(data).into_owned();
            let b = text.as_bytes();
            let mut spans = Vec::new();
            let mut i = 0;
            while i < b.len() {
                if b[i].is_ascii_digit() {
                    let s = i;
                    while i < b.len() && (b[i].is_ascii_digit() || b[i] == b'.') {
                        i += 1;
                    }
                    spans.push((s, i));
                } else {
                    i += 1;
                }
            }
            if spans.is_empty() {
                return "none";
            }
            let (s, e) = spans[rng.usize(spans.len())];
            let old: f64 = text[s..e].parse().unwrap_or(0.0);
            let new = match rng.below(8) {
                0 => 0.0,
                1 => 1.0,
                2 => old * 2.0,
                3 => (old / 2.0).floor(),
                4 => old + 1.0,
                5 => (old - 1.0).max(0.0),
                6 => rng.range(0, 512) as f64,
                _ => rng.range(0, 600_000) as f64,
            };
            let mut out = text[..s].to_owned();
            out.push_str(&format!("{new}"));
            out.push_str(&text[e..]);
            *data = out.into_bytes();
            "number_tweak"
        }
    }
}

fn gen_case(rng: &mut Rng, tier: Tier, adversarial: bool) -> PipeCase {
    let max_n = if tier == Tier::Quick { 60 } else { 160 };
    let (mut content, map_mode) = if rng.chance(0.35) {
        let idx = rng.usize(4);
        (real_window(rng, idx, max_n).render().into_bytes(), idx)
    } else if rng.chance(0.25) {
        (gen_convert_stress(rng, max_n).render().into_bytes(), 0)
    } else {
        let mode = rng.weighted(&[46, 18, 18, 18]);
        let sh = gen_shape(rng, mode, max_n);
        (gen_map(rng, &sh).render().into_bytes(), mode)
    };
    let mut storage_faults = Vec::new();
    let n_faults = *rng.pick(&[0usize, 1, 1, 2, 2, 3, 4]);
    for _ in 0..n_faults {
        let f = if adversarial {
            storage_fault(rng, &mut content)
        } else {
            mild_fault(rng, &mut content)
        };
        storage_faults.push(f.to_owned());
    }
    let mut targets = vec![map_mode];
    if map_mode == 0 {
        targets.push(1 + rng.usize(3));
        if rng.chance(0.4) {
            targets.push(1 + rng.usize(3));
        }
    }
    let nd = 1 + rng.usize(2);
    let diffs = (0..nd)
        .map(|_| {
            let t = targets[rng.usize(targets.len())];
            gen_diff(rng, t)
        })
        .collect();
    let n = max_n as u32;
    let scores = (0..2).map(|_| gen_score(rng, n)).collect();
    let states = (0..3).map(|_| gen_state(rng, n)).collect();
    let nth_pattern = (0..4)
        .map(|_| match rng.below(5) {
            0 => 0,
            1 => 1,
            2 => rng.below(10),
            3 => rng.below(u64::from(n)),
            _ => usize::MAX as u64,
        })
        .collect();
    PipeCase {
        content,
        storage_faults,
        targets,
        diffs,
        scores,
        states,
        nth_pattern,
    }
}

/// Longest slider of the map in ms, from the public timing data:
/// px * spans / (100 * slider_multiplier * slider_velocity / beat_len).
fn max_slider_duration_ms(m: &Beatmap) -> f64 {
    let mut max = 0.0f64;
    for h in &m.hit_objects {
        if let HitObjectKind::Slider(s) = &h.kind {
            let mut px = 0.0f64;
            for w in s.control_points.windows(2) {
                let dx = f64::from(w[1].pos.x - w[0].pos.x);
                let dy = f64::from(w[1].pos.y - w[0].pos.y);
                px += (dx * dx + dy * dy).sqrt();
            }
            let px = s.expected_dist.unwrap_or(px);
            let beat_len = m
                .timing_points
                .iter()
                .rev()
                .find(|p| p.time <= h.start_time)
                .or(m.timing_points.first())
                .map_or(500.0, |p| p.beat_len);
            let sv = m
                .difficulty_points
                .iter()
                .rev()
                .find(|p| p.time <= h.start_time)
                .map_or(1.0, |p| p.slider_velocity);
            let velocity = 100.0 * m.slider_multiplier * sv / beat_len;
            let d = px * (s.repeats as f64 + 1.0) / velocity;
            if d > max {
                max = d;
            }
        }
    }
    max
}

const HOUR_MS: f64 = 3_600_000.0;

/// Discriminating conditions that become part of a violation class.
fn map_tags(m: &Beatmap) -> Vec<String> {
    let mut t = Vec::new();
    if max_slider_duration_ms(m) > HOUR_MS {
        t.push("slider-longer-than-1h".to_owned());
    }
    t
}

/// "times in [0, 3h]" of the realistic domain: every object starts and ends inside it
/// (a few seconds of lead-in before 0 are tolerated: editors allow negative offsets).
fn times_realistic(m: &Beatmap) -> bool {
    let lim = 3.0 * HOUR_MS;
    m.hit_objects.iter().all(|h| {
        let dur = match &h.kind {
            HitObjectKind::Spinner(s) => s.duration,
            HitObjectKind::Hold(s) => s.duration,
            _ => 0.0,
        };
        h.start_time >= -5000.0 && h.start_time + dur <= lim
    }) && max_slider_duration_ms(m) <= lim
        && m.hit_objects.iter().all(|h| h.pos.x.abs() <= 2048.0 && h.pos.y.abs() <= 2048.0)
}

/// The property's domain predicate.
fn in_domain(m: &Beatmap) -> Result<(), &'static str> {
    if m.check_suspicion().is_err() {
        return Err("suspicious");
    }
    if m.hit_objects.len() > 300 {
        return Err("too_many_objects");
    }
    for h in &m.hit_objects {
        if let HitObjectKind::Slider(s) = &h.kind {
            if s.repeats > 100 {
                return Err("slider_repeats");
            }
            if s.expected_dist.is_some_and(|d| d > 20_000.0) {
                return Err("slider_px");
            }
            let mut px = 0.0f64;
            for w in s.control_points.windows(2) {
                let dx = f64::from(w[1].pos.x - w[0].pos.x);
                let dy = f64::from(w[1].pos.y - w[0].pos.y);
                px += (dx * dx + dy * dy).sqrt();
            }
            if !(px <= 20_000.0) {
                return Err("slider_px");
            }
        }
    }
    Ok(())
}

fn exec(c: &PipeCase, st: &mut Stats, adversarial: bool) -> Option<Violation> {
    for f in &c.storage_faults {
        st.fault(&format!("storage_{f}"));
    }
    let dom = if adversarial { "adversarial" } else { "realistic" };
    let map = match guard(|| Beatmap::from_bytes(&c.content)) {
        Ok(Ok(m)) => m,
        Ok(Err(_)) => {
            st.probe("decode_error");
            return None;
        }
        Err(p) => return Some(Violation::new(format!("C05/{dom}/decode/panic@{}", panic_site(&p)), p)),
    };
    if let Err(why) = in_domain(&map) {
        st.probe(&format!("outside_domain_{why}"));
        return None;
    }
    if !adversarial && !times_realistic(&map) {
        st.probe("outside_realistic_times_or_coordinates");
        return None;
    }
    st.probe("in_domain");
    let tags = map_tags(&map);
    let tag_suffix = if tags.is_empty() { String::new() } else { format!("+{}", tags.join("+")) };
    for t in &tags {
        st.probe(&format!("tag_{t}"));
    }
    let mm = mode_idx(map.mode);
    let mut first: Option<Violation> = None;
    let mut call = |name: &str, target: usize, f: &mut dyn FnMut()| {
        let t0 = cpu_s();
        let r = guard(|| f());
        let dt = cpu_s() - t0;
        st.ops += 1;
        if first.is_some() {
            return;
        }
        match r {
            Err(p) => {
                first = Some(Violation::new(
                    format!("C05/{dom}/{}/{name}/panic@{}{tag_suffix}", mode_name(target), panic_site(&p)),
                    p,
                ));
            }
            Ok(()) if dt > SLOW_CALL_CPU_S => {
                first = Some(Violation::new(
                    format!("C05/{dom}/{}/{name}/slow{tag_suffix}", mode_name(target)),
                    format!("{dt:.1} CPU-seconds for one call on a map with {} objects", map.hit_objects.len()),
                ));
            }
            Ok(()) => {}
        }
    };
    call("bpm", mm, &mut || {
        let _ = map.bpm();
    });
    call("total_break_time", mm, &mut || {
        let _ = map.total_break_time();
    });
    if mm == 0 && !map.is_convert {
        // every key count is its own set of code paths in the mania converter, and conversions are
        // cheap: all of them on every osu! map
        call("convert_all_key_mods", 3, &mut || {
            for bits in std::iter::once(0u32).chain(crate::spec::KEY_BITS.iter().copied()) {
                let _ = map.convert_ref(MODES[3], &GameMods::from(bits));
            }
        });
        call("convert_taiko_catch", 1, &mut || {
            let _ = map.convert_ref(MODES[1], &GameMods::from(0u32));
            let _ = map.convert_ref(MODES[2], &GameMods::from(0u32));
        });
    }
    for (di, d) in c.diffs.iter().enumerate() {
        let mods: GameMods = d.mods.as_ref().map_or_else(|| 0u32.into(), ModsSpec::build);
        call("attributes", mm, &mut || {
            let _ = map.attributes().difficulty(&d.build()).build();
            let _ = map.attributes().difficulty(&d.build()).hit_windows();
        });
        for &t in &c.targets {
            if t != mm && (mm != 0 || map.is_convert) {
                continue;
            }
            call("convert", t, &mut || {
                let _ = map.convert_ref(MODES[t], &mods);
                let mut m2 = map.clone();
                let _ = m2.convert_mut(MODES[t], &mods);
            });
            call("calculate", t, &mut || {
                let _ = sut::oneshot_diff(&d.build(), &map, t);
            });
            let prefix = c.nth_pattern.first().copied().unwrap_or(3).min(400) as u32;
            call("calculate_prefix", t, &mut || {
                let _ = sut::oneshot_diff(&d.with_passed(prefix), &map, t);
            });
            call("strains", t, &mut || {
                let _ = sut::oneshot_strains(&d.build(), &map, t);
            });
            call("gradual_difficulty_all", t, &mut || {
                if let Ok(mut g) = AnyGD::new(d.build(), &map, t, di % 2 == 0) {
                    let mut n = 0usize;
                    while g.next().is_some() {
                        n += 1;
                        if n > 2_000_000 {
                            panic!("gradual difficulty does not terminate");
                        }
                    }
                    let _ = (g.len(), g.next());
                }
            });
            call("gradual_difficulty_nth", t, &mut || {
                if let Ok(mut g) = AnyGD::new(d.build(), &map, t, di % 2 == 1) {
                    for k in &c.nth_pattern {
                        let _ = g.len();
                        let _ = g.nth(usize::try_from(*k).unwrap_or(usize::MAX));
                    }
                    let _ = (g.len(), g.size_hint());
                }
            });
            for s in &c.scores {
                call("performance", t, &mut || {
                    if let Ok(p) = Performance::new(&map).difficulty(d.build()).try_mode(MODES[t]) {
                        let mut p = s.apply(p);
                        let _ = p.generate_state();
                        let _ = p.calculate();
                    }
                });
            }
            call("gradual_performance", t, &mut || {
                if let Ok(mut g) = AnyGP::new(d.build(), &map, t, di % 2 == 0) {
                    for (i, s) in c.states.iter().enumerate() {
                        let k = c.nth_pattern.get(i).copied().unwrap_or(0);
                        let _ = g.nth(s.build(), usize::try_from(k).unwrap_or(usize::MAX));
                        let _ = g.len();
                    }
                    let _ = g.last(c.states[0].build());
                }
            });
        }
    }
    let _ = Difficulty::new();
    first
}

fn simpler(c: &PipeCase) -> Vec<PipeCase> {
    let mut out = Vec::new();
    let lines: Vec<Vec<u8>> = c.content.split_inclusive(|b| *b == b'\n').map(<[u8]>::to_vec).collect();
    let n = lines.len();
    if n > 3 {
        let mut x = c.clone();
        x.content = lines[..n / 2].concat();
        out.push(x);
        let mut x = c.clone();
        x.content = [lines[..n / 4].concat(), lines[n / 2..].concat()].concat();
        out.push(x);
    }
    for i in (0..n).rev() {
        let mut x = c.clone();
        let mut l = lines.clone();
        l.remove(i);
        x.content = l.concat();
        out.push(x);
    }
    if c.diffs.len() > 1 {
        for i in 0..c.diffs.len() {
            let mut x = c.clone();
            x.diffs.remove(i);
            out.push(x);
        }
    }
    if c.targets.len() > 1 {
        for i in 0..c.targets.len() {
            let mut x = c.clone();
            x.targets.remove(i);
            out.push(x);
        }
    }
    for (i, d) in c.diffs.iter().enumerate() {
        for s in d.simpler() {
            let mut x = c.clone();
            x.diffs[i] = s;
            out.push(x);
        }
    }
    if c.scores.len() > 1 {
        for i in 0..c.scores.len() {
            let mut x = c.clone();
            x.scores.remove(i);
            out.push(x);
        }
    }
    out
}

fn to_json(c: &PipeCase) -> Value {
    let content = match std::str::from_utf8(&c.content) {
        Ok(s) if !s.contains('\u{0}') => json!({"text": s}),
        _ => json!({"hex": c.content.iter().map(|b| format!("{b:02x}")).collect::<String>()}),
    };
    json!({
        "content": content, "storage_faults": c.storage_faults, "targets": c.targets,
        "diffs": c.diffs.iter().map(DiffSpec::to_json).collect::<Vec<_>>(),
        "scores": c.scores.iter().map(ScoreSpec::to_json).collect::<Vec<_>>(),
        "states": c.states.iter().map(StateSpec::to_json).collect::<Vec<_>>(),
        "nth_pattern": c.nth_pattern,
    })
}

fn from_json(v: &Value) -> PipeCase {
    let content = if let Some(s) = v["content"]["text"].as_str() {
        s.as_bytes().to_vec()
    } else {
        let h = v["content"]["hex"].as_str().unwrap_or("");
        (0..h.len() / 2)
            .filter_map(|i| u8::from_str_radix(&h[2 * i..2 * i + 2], 16).ok())
            .collect()
    };
    let arr = |k: &str| v[k].as_array().cloned().unwrap_or_default();
    PipeCase {
        content,
        storage_faults: arr("storage_faults").iter().filter_map(|x| x.as_str().map(str::to_owned)).collect(),
        targets: arr("targets").iter().filter_map(|x| x.as_u64().map(|n| n as usize)).collect(),
        diffs: arr("diffs").iter().map(DiffSpec::from_json).collect(),
        scores: arr("scores").iter().map(ScoreSpec::from_json).collect(),
        states: arr("states").iter().map(StateSpec::from_json).collect(),
        nth_pattern: arr("nth_pattern").iter().filter_map(Value::as_u64).collect(),
    }
}

macro_rules! pipe_engine {
    ($name:ident, $sname:literal, $adv:expr) => {
        pub struct $name;
        impl Engine for $name {
            type Case = PipeCase;
            fn name() -> &'static str {
                $sname
            }
            fn gen(rng: &mut Rng, tier: Tier) -> PipeCase {
                gen_case(rng, tier, $adv)
            }
            fn exec(case: &PipeCase, stats: &mut Stats) -> Option<Violation> {
                exec(case, stats, $adv)
            }
            fn simpler(case: &PipeCase) -> Vec<PipeCase> {
                simpler(case)
            }
            fn to_json(c: &PipeCase) -> Value {
                to_json(c)
            }
            fn from_json(v: &Value) -> PipeCase {
                from_json(v)
            }
            fn signature(c: &PipeCase) -> u64 {
                fnv(format!("{:?}|{:?}|{}|{}", c.storage_faults, c.targets, c.content.len() / 256, c.diffs.len()).as_bytes())
            }
            fn nontrivial(c: &PipeCase) -> bool {
                !c.storage_faults.is_empty()
            }
            fn tags(c: &PipeCase) -> Vec<String> {
                match guard(|| Beatmap::from_bytes(&c.content)) {
                    Ok(Ok(m)) => map_tags(&m),
                    _ => Vec::new(),
                }
            }
        }
    };
}

pipe_engine!(C05Real, "c05r", false);
pipe_engine!(C05Adv, "c05a", true);

use std::io::{self, Write};

use serde_json::Value;
use simlib::{
    grad::{C02Engine, C03Engine, C15Engine},
    builder::C18Engine,
    hist::C01Engine,
    io::C06Engine,
    pipe::{C05Adv, C05Real},
    runner::{install_panic_hook, replay, run_range, Engine, Tier},
};

fn arg(args: &[String], name: &str) -> Option<String> {
    args.iter()
        .position(|a| a == name)
        .and_then(|i| args.get(i + 1).cloned())
}

fn drive<E: Engine>(args: &[String]) -> i32 {
    let out = &mut io::stdout().lock();
    if let Some(path) = arg(args, "--replay") {
        let text = std::fs::read_to_string(&path).expect("harness: cannot read replay file");
        let v: Value = serde_json::from_str(&text).expect("harness: replay file is not JSON");
        return i32::from(replay::<E>(&v, out));
    }
    let seed: u64 = arg(args, "--seed").and_then(|s| s.parse().ok()).unwrap_or(1);
    let from: u64 = arg(args, "--from").and_then(|s| s.parse().ok()).unwrap_or(0);
    let to: u64 = arg(args, "--to").and_then(|s| s.parse().ok()).unwrap_or(100);
    let tier = if arg(args, "--tier").as_deref() == Some("thorough") {
        Tier::Thorough
    } else {
        Tier::Quick
    };
    if args.iter().any(|a| a == "--gen-only") {
        for run in from..to {
            let mut rng = simlib::prng::Rng::split(seed, E::name(), run);
            let case = E::gen(&mut rng, tier);
            let _ = writeln!(out, "{}", serde_json::json!({"run": run, "case": E::to_json(&case), "tags": E::tags(&case)}));
        }
        return 0;
    }
    let r = run_range::<E>(seed, from, to, tier, out);
    let _ = out.flush();
    i32::from(r.violations > 0)
}

#[global_allocator]
static GLOBAL: simlib::seams::SimAlloc = simlib::seams::SimAlloc;

fn trace_main(args: &[String]) -> i32 {
    use simlib::trace::{exec_case, features, gen_case, TraceCase};
    let out = &mut io::stdout().lock();
    if let Some(path) = arg(args, "--replay") {
        let text = std::fs::read_to_string(&path).expect("harness: cannot read replay file");
        let v: Value = serde_json::from_str(&text).expect("harness: replay file is not JSON");
        let case = TraceCase::from_json(&v["case"]);
        let full = args.iter().any(|a| a == "--full");
        let d = exec_case(&case, full);
        let _ = writeln!(out, "{}", serde_json::json!({"type": "trace", "features": features(), "d": d}));
        return 0;
    }
    let seed: u64 = arg(args, "--seed").and_then(|s| s.parse().ok()).unwrap_or(1);
    let from: u64 = arg(args, "--from").and_then(|s| s.parse().ok()).unwrap_or(0);
    let to: u64 = arg(args, "--to").and_then(|s| s.parse().ok()).unwrap_or(100);
    let tier = if arg(args, "--tier").as_deref() == Some("thorough") { Tier::Thorough } else { Tier::Quick };
    let gen_only = args.iter().any(|a| a == "--gen-only");
    let mut nops = 0u64;
    for run in from..to {
        let mut rng = simlib::prng::Rng::split(seed, "trace", run);
        let case = gen_case(&mut rng, tier);
        if gen_only {
            let _ = writeln!(out, "{}", serde_json::json!({"run": run, "case": case.to_json()}));
            continue;
        }
        let d = exec_case(&case, false);
        nops += d.len() as u64;
        let kinds: Vec<String> = case.ops.iter().map(|o| format!("{}:{}", o.kind, o.target)).collect();
        let _ = writeln!(out, "{}", serde_json::json!({"type": "trace", "run": run, "d": d, "k": kinds, "objs": case.map.objects.len()}));
    }
    let _ = writeln!(out, "{}", serde_json::json!({"type": "summary", "features": features(), "runs": to - from, "ops": nops}));
    0
}

fn main() {
    install_panic_hook();
    if let Ok(j) = std::env::var("VERIF_ALLOC_JUNK") {
        // junk-fill fresh memory, poison freed memory, always-moving realloc for the whole process
        simlib::seams::set_alloc_junk(j.parse().unwrap_or(0xA5));
    }
    let args: Vec<String> = std::env::args().collect();
    let code = match args.get(1).map(String::as_str) {
        Some("c01") => drive::<C01Engine>(&args),
        Some("c18") => drive::<C18Engine>(&args),
        Some("c06") => drive::<C06Engine>(&args),
        Some("c05r") => drive::<C05Real>(&args),
        Some("c05a") => drive::<C05Adv>(&args),
        Some("shimprobe") => {
            // hash iteration order on the main thread and on two fresh threads + shim counters
            let a = simlib::seams::hash_order_probe();
            let b = std::thread::spawn(simlib::seams::hash_order_probe).join().unwrap();
            let c = std::thread::spawn(simlib::seams::hash_order_probe).join().unwrap();
            println!(
                "{}",
                serde_json::json!({"shim": simlib::seams::shim_present(), "main": a, "t1": b, "t2": c,
                                   "getrandom_calls": simlib::seams::getrandom_calls()})
            );
            0
        }
        Some("trace") => trace_main(&args),
        Some("c11c") => drive::<simlib::grad::C11ConsumeEngine>(&args),
        Some("c11e") => drive::<simlib::edited::C11EditedEngine>(&args),
        Some("c11d") => drive::<simlib::io::C11DecodeEngine>(&args),
        Some("c20") => drive::<simlib::conc::C20Engine>(&args),
        Some("c20s") => drive::<simlib::conc::C20StormEngine>(&args),
        #[cfg(rosu_pp_verif)]
        Some("c11s") => drive::<simlib::strainsvec::StrainsVecEngine>(&args),
        Some("c02") => drive::<C02Engine>(&args),
        Some("c03") => drive::<C03Engine>(&args),
        Some("c15") => drive::<C15Engine>(&args),
        other => {
            eprintln!("harness: unknown engine {other:?}");
            2
        }
    };
    std::process::exit(code);
}

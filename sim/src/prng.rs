//! The only source of randomness in the simulator: splitmix64 seeding a
//! xoshiro256**. Nothing here reads a clock, an address or the OS.

#[derive(Clone, Debug)]
pub struct Rng {
    s: [u64; 4],
}

pub fn splitmix(x: &mut u64) -> u64 {
    *x = x.wrapping_add(0x9E37_79B9_7F4A_7C15);
    let mut z = *x;
    z = (z ^ (z >> 30)).wrapping_mul(0xBF58_476D_1CE4_E5B9);
    z = (z ^ (z >> 27)).wrapping_mul(0x94D0_49BB_1331_11EB);
    z ^ (z >> 31)
}

/// FNV-1a over bytes; used for signatures (never for decisions).
pub fn fnv(bytes: &[u8]) -> u64 {
    let mut h: u64 = 0xcbf2_9ce4_8422_2325;
    for b in bytes {
        h ^= u64::from(*b);
        h = h.wrapping_mul(0x0000_0100_0000_01B3);
    }
    h
}

impl Rng {
    pub fn new(seed: u64) -> Self {
        let mut x = seed;
        let s = [
            splitmix(&mut x),
            splitmix(&mut x),
            splitmix(&mut x),
            splitmix(&mut x),
        ];
        Self { s }
    }

    /// Independent stream for `(seed, domain, index)`.
    pub fn split(seed: u64, domain: &str, index: u64) -> Self {
        let mut x = seed ^ fnv(domain.as_bytes()).rotate_left(17);
        let a = splitmix(&mut x);
        let mut y = a ^ index.wrapping_mul(0xD6E8_FEB8_6659_FD93);
        let b = splitmix(&mut y);
        Self::new(b)
    }

    pub fn next_u64(&mut self) -> u64 {
        let result = self.s[1].wrapping_mul(5).rotate_left(7).wrapping_mul(9);
        let t = self.s[1] << 17;
        self.s[2] ^= self.s[0];
        self.s[3] ^= self.s[1];
        self.s[1] ^= self.s[2];
        self.s[0] ^= self.s[3];
        self.s[2] ^= t;
        self.s[3] = self.s[3].rotate_left(45);
        result
    }

    /// Uniform in `0..n` (n > 0).
    pub fn below(&mut self, n: u64) -> u64 {
        debug_assert!(n > 0);
        // multiply-shift; bias is irrelevant here
        ((u128::from(self.next_u64()) * u128::from(n)) >> 64) as u64
    }

    pub fn usize(&mut self, n: usize) -> usize {
        self.below(n as u64) as usize
    }

    /// Inclusive range.
    pub fn range(&mut self, lo: i64, hi: i64) -> i64 {
        debug_assert!(hi >= lo);
        lo + self.below((hi - lo) as u64 + 1) as i64
    }

    pub fn f64(&mut self) -> f64 {
        (self.next_u64() >> 11) as f64 / (1u64 << 53) as f64
    }

    pub fn frange(&mut self, lo: f64, hi: f64) -> f64 {
        lo + (hi - lo) * self.f64()
    }

    pub fn chance(&mut self, p: f64) -> bool {
        self.f64() < p
    }

    pub fn pick<'a, T>(&mut self, xs: &'a [T]) -> &'a T {
        &xs[self.usize(xs.len())]
    }

    /// Weighted index.
    pub fn weighted(&mut self, w: &[u32]) -> usize {
        let total: u64 = w.iter().map(|x| u64::from(*x)).sum();
        let mut r = self.below(total.max(1));
        for (i, x) in w.iter().enumerate() {
            if r < u64::from(*x) {
                return i;
            }
            r -= u64::from(*x);
        }
        w.len() - 1
    }

    pub fn shuffle<T>(&mut self, xs: &mut [T]) {
        for i in (1..xs.len()).rev() {
            let j = self.usize(i + 1);
            xs.swap(i, j);
        }
    }
}

//! E4 for C10: a seeded workload without oracles whose complete event log (digest of
//! every value the library returns) is emitted, so that the four feature builds can
//! replay identical seeds and have their logs diffed by the driver.

use serde_json::{json, Value};

use crate::{
    mapgen::{gen_map, gen_shape, real_window, MapText},
    prng::{fnv, Rng},
    runner::{guard, panic_site, Tier},
    spec::{gen_diff, gen_score, gen_state, DiffSpec, ModsSpec, ScoreSpec, StateSpec, MODES},
    sut::{self, AnyGD, AnyGP},
};
use rosu_pp::{GameMods, Performance};

#[derive(Clone, Debug)]
pub struct TOp {
    /// calc strains prefix perf grad_diff grad_perf convert
    pub kind: String,
    pub target: usize,
    pub diff: DiffSpec,
    pub score: ScoreSpec,
    pub states: Vec<StateSpec>,
    pub n: u32,
    /// gradual: after which steps the calculator is handed to another thread
    /// (executed in `sync` builds and for `Send` types, a no-op otherwise)
    pub hops: Vec<u32>,
}

#[derive(Clone, Debug)]
pub struct TraceCase {
    pub map: MapText,
    pub ops: Vec<TOp>,
}

impl TOp {
    pub fn to_json(&self) -> Value {
        json!({"kind": self.kind, "target": self.target, "diff": self.diff.to_json(), "score": self.score.to_json(),
               "states": self.states.iter().map(StateSpec::to_json).collect::<Vec<_>>(), "n": self.n, "hops": self.hops})
    }
    pub fn from_json(v: &Value) -> Self {
        Self {
            kind: v["kind"].as_str().unwrap_or("calc").to_owned(),
            target: v["target"].as_u64().unwrap_or(0) as usize,
            diff: DiffSpec::from_json(&v["diff"]),
            score: ScoreSpec::from_json(&v["score"]),
            states: v["states"].as_array().map(|a| a.iter().map(StateSpec::from_json).collect()).unwrap_or_default(),
            n: v["n"].as_u64().unwrap_or(0) as u32,
            hops: v["hops"].as_array().map(|a| a.iter().filter_map(|x| x.as_u64().map(|n| n as u32)).collect()).unwrap_or_default(),
        }
    }
}

impl TraceCase {
    pub fn to_json(&self) -> Value {
        json!({"map": self.map.to_json(), "ops": self.ops.iter().map(TOp::to_json).collect::<Vec<_>>()})
    }
    pub fn from_json(v: &Value) -> Self {
        Self {
            map: MapText::from_json(&v["map"]),
            ops: v["ops"].as_array().map(|a| a.iter().map(TOp::from_json).collect()).unwrap_or_default(),
        }
    }
}

/// Two bursts separated by a very long break: what the zero-run compaction of the
/// compact strain list exists for.
fn burst_map(rng: &mut Rng, mode: usize) -> MapText {
    let mut sh = gen_shape(rng, mode, 24);
    sh.n = 6 + rng.usize(20);
    sh.tempo = 0;
    let mut a = gen_map(rng, &sh);
    let gap = *rng.pick(&[900.0, 5_000.0, 10_000.0, 60_000.0, 400_000.0, 1_000_000.0, 3_400_000.0]);
    let last_t: f64 = a
        .objects
        .last()
        .and_then(|l| l.split(',').nth(2).and_then(|t| t.parse().ok()))
        .unwrap_or(0.0);
    let first_t: f64 = a
        .objects
        .first()
        .and_then(|l| l.split(',').nth(2).and_then(|t| t.parse().ok()))
        .unwrap_or(0.0);
    let shift = last_t - first_t + gap;
    let second: Vec<String> = a
        .objects
        .iter()
        .map(|l| {
            let mut f: Vec<String> = l.split(',').map(str::to_owned).collect();
            if let Ok(t) = f[2].parse::<f64>() {
                f[2] = format!("{}", t + shift);
            }
            // spinner / hold end times move too
            if f.len() > 5 {
                if let Ok(ty) = f[3].parse::<u32>() {
                    if ty & 8 != 0 {
                        if let Ok(e) = f[5].parse::<f64>() {
                            f[5] = format!("{}", e + shift);
                        }
                    } else if ty & 128 != 0 {
                        let (e, rest) = f[5].split_once(':').map_or((f[5].clone(), String::new()), |(a, b)| (a.to_owned(), b.to_owned()));
                        if let Ok(e) = e.parse::<f64>() {
                            f[5] = format!("{}:{}", e + shift, rest);
                        }
                    }
                }
            }
            f.join(",")
        })
        .collect();
    a.objects.extend(second);
    a
}

pub fn gen_case(rng: &mut Rng, tier: Tier) -> TraceCase {
    let max_n = if tier == Tier::Quick { 40 } else { 90 };
    let (map, map_mode) = match rng.below(10) {
        0 | 1 => {
            let idx = rng.usize(4);
            (real_window(rng, idx, max_n), idx)
        }
        2..=4 => {
            let mode = rng.weighted(&[30, 40, 15, 15]);
            (burst_map(rng, mode), mode)
        }
        _ => {
            let mode = rng.weighted(&[35, 35, 15, 15]);
            let mut sh = gen_shape(rng, mode, max_n);
            if rng.chance(0.3) {
                sh.tempo = 2;
            }
            (gen_map(rng, &sh), mode)
        }
    };
    let n_obj = map.objects.len() as u32;
    let n_ops = 3 + rng.usize(5);
    let mut ops = Vec::new();
    for _ in 0..n_ops {
        let target = if map_mode == 0 {
            rng.weighted(&[30, 40, 15, 15])
        } else {
            map_mode
        };
        let kind = ["calc", "strains", "prefix", "perf", "grad_diff", "grad_perf", "convert"][rng.weighted(&[18, 22, 18, 12, 16, 9, 5])];
        let hops = (0..rng.usize(4)).map(|_| rng.below(u64::from(n_obj) + 1) as u32).collect();
        ops.push(TOp {
            kind: kind.to_owned(),
            target,
            diff: gen_diff(rng, target),
            score: gen_score(rng, n_obj.max(1)),
            states: (0..3).map(|_| gen_state(rng, n_obj.max(1))).collect(),
            n: rng.below(u64::from(n_obj) + 2) as u32,
            hops,
        });
    }
    TraceCase { map, ops }
}

struct AssertSend<T>(T);
// SAFETY: only used when `AnyGD::sendable()` holds for the live variant.
unsafe impl<T> Send for AssertSend<T> {}

fn hop(g: AnyGD) -> AnyGD {
    if g.sendable() {
        let w = AssertSend(g);
        std::thread::scope(|s| s.spawn(move || w).join().expect("hop")).0
    } else {
        g
    }
}

fn exec_op(map: &rosu_pp::Beatmap, op: &TOp) -> String {
    let d = op.diff.build();
    match op.kind.as_str() {
        "calc" => format!("{:?}", sut::oneshot_diff(&d, map, op.target)),
        "strains" => format!("{:?}", sut::oneshot_strains(&d, map, op.target)),
        "prefix" => format!("{:?}", sut::oneshot_diff(&op.diff.with_passed(op.n), map, op.target)),
        "perf" => match Performance::new(map).difficulty(d).try_mode(MODES[op.target]) {
            Ok(p) => sut::dig_pa(&op.score.apply(p).calculate()),
            Err(_) => "convert-error".into(),
        },
        "convert" => {
            let mods: GameMods = op.diff.mods.as_ref().map_or_else(|| 0u32.into(), ModsSpec::build);
            format!("{:?}", map.convert_ref(MODES[op.target], &mods).map(std::borrow::Cow::into_owned))
        }
        "grad_diff" => match AnyGD::new(d, map, op.target, op.n % 2 == 0) {
            Ok(mut g) => {
                let mut out = Vec::new();
                let mut i = 0u32;
                loop {
                    if op.hops.contains(&i) {
                        g = hop(g);
                    }
                    match g.next() {
                        Some(v) => out.push(v),
                        None => break,
                    }
                    i += 1;
                    if i > 100_000 {
                        break;
                    }
                }
                format!("{out:?}")
            }
            Err(e) => e,
        },
        _ => match AnyGP::new(d, map, op.target, op.n % 2 == 0) {
            Ok(mut g) => {
                let mut out = Vec::new();
                for (i, s) in op.states.iter().enumerate() {
                    out.push(g.nth(s.build(), (op.n as usize + i) % 7));
                }
                out.push(g.last(op.states.first().cloned().unwrap_or_default().build()));
                format!("{out:?}")
            }
            Err(e) => e,
        },
    }
}

/// One digest per op; `full` keeps the text of the values (for the report).
pub fn exec_case(c: &TraceCase, full: bool) -> Vec<String> {
    let map = sut::decode(&c.map.render());
    c.ops
        .iter()
        .map(|op| {
            let mm = crate::spec::mode_idx(map.mode);
            if mm != op.target && mm != 0 {
                return "skip".to_owned();
            }
            let s = match guard(|| exec_op(&map, op)) {
                Ok(s) => s,
                Err(p) => format!("PANIC {}", panic_site(&p)),
            };
            // C10 speaks of numerically equal results: -0.0 and 0.0 are the same number
            let s = normalise_negative_zero(&s);
            if full {
                s
            } else {
                format!("{:016x}", fnv(s.as_bytes()))
            }
        })
        .collect()
}

/// Rewrites the token `-0.0` (not part of a longer literal such as `-0.05`) to `0.0`.
pub fn normalise_negative_zero(s: &str) -> String {
    let b = s.as_bytes();
    let mut out = String::with_capacity(s.len());
    let mut i = 0;
    while i < b.len() {
        if b[i..].starts_with(b"-0.0")
            && !b.get(i + 4).is_some_and(u8::is_ascii_digit)
            && !(i > 0 && (b[i - 1].is_ascii_digit() || b[i - 1] == b'e' || b[i - 1] == b'E'))
        {
            out.push_str("0.0");
            i += 4;
        } else {
            // SAFETY of slicing: Debug output of the attribute types is ASCII apart from nothing
            out.push(b[i] as char);
            i += 1;
        }
    }
    out
}

pub fn features() -> &'static str {
    match (cfg!(feature = "raw_strains"), cfg!(feature = "sync")) {
        (false, false) => "default",
        (true, false) => "raw_strains",
        (false, true) => "sync",
        (true, true) => "raw_strains,sync",
    }
}

//! E1 for C01: call histories over a pool of maps. Every logical call
//! `(operation, map, mode, settings, score)` is memoised on first sight; any later
//! execution of the same logical call -- after other calls, on another thread with
//! fresh hash keys, after the heap was disturbed, after the clock jumped, with a
//! reused instead of a fresh builder -- must give the same digest, and no call may
//! change a map it was given by reference.

use std::collections::BTreeMap;

use rosu_pp::{any::DifficultyAttributes, Beatmap, Difficulty, Performance};
use serde_json::{json, Value};

use crate::{
    mapgen::{gen_map, gen_shape, real_window, MapText},
    prng::{fnv, Rng},
    runner::{guard, panic_site, Engine, Stats, Tier, Violation},
    seams,
    spec::{gen_diff, gen_score, mode_idx, mode_name, DiffSpec, ScoreSpec, MODES},
    sut::{self, AnyGD, AnyGP},
};

#[derive(Clone, Debug, PartialEq)]
pub struct CallSpec {
    /// decode_bytes decode_str bpm convert_owned convert_ref convert_mut calc strains perf
    /// grad_diff grad_perf attrs perf_from_attrs
    pub kind: String,
    pub map: usize,
    pub target: usize,
    pub diff: DiffSpec,
    pub score: ScoreSpec,
    /// how many gradual steps to take (grad_*)
    pub k: u32,
}

impl CallSpec {
    fn to_json(&self) -> Value {
        json!({"kind": self.kind, "map": self.map, "target": self.target, "diff": self.diff.to_json(),
               "score": self.score.to_json(), "k": self.k})
    }
    fn from_json(v: &Value) -> Self {
        Self {
            kind: v["kind"].as_str().unwrap_or("bpm").to_owned(),
            map: v["map"].as_u64().unwrap_or(0) as usize,
            target: v["target"].as_u64().unwrap_or(0) as usize,
            diff: DiffSpec::from_json(&v["diff"]),
            score: ScoreSpec::from_json(&v["score"]),
            k: v["k"].as_u64().unwrap_or(0) as u32,
        }
    }
}

#[derive(Clone, Debug, PartialEq)]
pub enum HOp {
    /// Execute logical call `calls[i]`; `reuse`: use the builder value kept from an
    /// earlier execution (clone of a stored `Difficulty`) instead of a fresh one.
    Call { i: usize, reuse: bool },
    /// The builder is first configured with other mods and used for a calculation, then `.mods(..)`
    /// of the call's own spec is applied to that same value ("reused builder value", re-configured).
    CallRemodded { i: usize },
    /// The next call runs on a fresh thread: fresh `RandomState` keys from the shim.
    HashUniverse,
    /// Allocate and partially free seeded junk so later allocations land elsewhere.
    AllocNoise(u32),
    /// Jump the simulated clock.
    ClockJump(i64),
    /// Change the allocator's junk/poison byte.
    AllocReseed(u8),
}

impl HOp {
    fn to_json(&self) -> Value {
        match self {
            HOp::Call { i, reuse } => json!({"call": i, "reuse": reuse}),
            HOp::CallRemodded { i } => json!({"call_remodded": i}),
            HOp::HashUniverse => json!("hash_universe"),
            HOp::AllocNoise(n) => json!({"alloc_noise": n}),
            HOp::ClockJump(n) => json!({"clock_jump": n}),
            HOp::AllocReseed(n) => json!({"alloc_reseed": n}),
        }
    }
    fn from_json(v: &Value) -> Self {
        if v.as_str() == Some("hash_universe") {
            HOp::HashUniverse
        } else if let Some(i) = v["call_remodded"].as_u64() {
            HOp::CallRemodded { i: i as usize }
        } else if let Some(i) = v["call"].as_u64() {
            HOp::Call {
                i: i as usize,
                reuse: v["reuse"].as_bool().unwrap_or(false),
            }
        } else if let Some(n) = v["alloc_noise"].as_u64() {
            HOp::AllocNoise(n as u32)
        } else if let Some(n) = v["clock_jump"].as_i64() {
            HOp::ClockJump(n)
        } else {
            HOp::AllocReseed(v["alloc_reseed"].as_u64().unwrap_or(0xA5) as u8)
        }
    }
    fn kind(&self) -> &'static str {
        match self {
            HOp::Call { reuse: false, .. } => "call",
            HOp::Call { reuse: true, .. } => "call_reused_builder",
            HOp::CallRemodded { .. } => "call_remodded_builder",
            HOp::HashUniverse => "hash_universe",
            HOp::AllocNoise(_) => "alloc_noise",
            HOp::ClockJump(_) => "clock_jump",
            HOp::AllocReseed(_) => "alloc_reseed",
        }
    }
}

#[derive(Clone, Debug)]
pub struct HistCase {
    pub hash_seed: u64,
    pub maps: Vec<MapText>,
    pub calls: Vec<CallSpec>,
    pub ops: Vec<HOp>,
}

const KINDS: [&str; 14] = [
    "decode_bytes",
    "decode_str",
    "bpm",
    "convert_owned",
    "convert_ref",
    "convert_mut",
    "calc",
    "strains",
    "perf",
    "grad_diff",
    "grad_perf",
    "attrs",
    "perf_from_attrs",
    // the same logical call as "calc", on a map decoded for the occasion and dropped afterwards:
    // consecutive temporaries tend to land at the same addresses
    "calc_temp",
];

fn gen_case(rng: &mut Rng, tier: Tier) -> HistCase {
    let max_n = if tier == Tier::Quick { 30 } else { 60 };
    let n_maps = 1 + rng.usize(3);
    let mut maps: Vec<MapText> = Vec::new();
    let mut modes: Vec<usize> = Vec::new();
    let siblings = rng.chance(0.35);
    for mi in 0..n_maps {
        if siblings && mi > 0 && modes[0] == 0 && rng.chance(0.4) {
            // a twin of the first map: same header, timing and object times, but circles and sliders
            // swapped (anything memoised on a summary of the map that ignores the object kinds would
            // confuse the two)
            let mut twin = maps[0].clone();
            for line in twin.objects.iter_mut() {
                let f: Vec<&str> = line.split(',').collect();
                if f.len() < 5 {
                    continue;
                }
                let Ok(ty) = f[3].trim().parse::<u32>() else { continue };
                if ty & 1 != 0 {
                    *line = format!("{},{},{},{},{},L|300:310,1,90", f[0], f[1], f[2], (ty & !1) | 2, f[4]);
                } else if ty & 2 != 0 {
                    *line = format!("{},{},{},{},{}", f[0], f[1], f[2], (ty & !2) | 1, f[4]);
                }
            }
            maps.push(twin);
            modes.push(0);
        } else if siblings && mi > 0 {
            // a different map of the same mode with the same number of objects as the first one
            let mode = modes[0];
            let mut sh = gen_shape(rng, mode, max_n);
            sh.n = maps[0].objects.len();
            sh.tie_timing = rng.chance(0.5);
            maps.push(gen_map(rng, &sh));
            modes.push(mode);
        } else if rng.chance(0.2) {
            let idx = rng.usize(4);
            maps.push(real_window(rng, idx, max_n));
            modes.push(idx);
        } else {
            let mode = rng.weighted(&[46, 18, 18, 18]);
            let mut sh = gen_shape(rng, mode, max_n);
            // tie-heavy timing is what bpm() has to be deterministic on
            sh.tie_timing = rng.chance(0.5);
            maps.push(gen_map(rng, &sh));
            modes.push(mode);
        }
    }
    // a damaged file now and then: a slider line whose path breaks off in a later segment (the decoder
    // skips the line; whatever it had put into its scratch lists by then must not reach anything else)
    for m in maps.iter_mut() {
        if rng.chance(0.3) {
            let t = 99_000 + rng.range(0, 5000);
            let bad = *rng.pick(&[
                "B|200:300|400:50|L|300:300|B|oops:1",
                "L|100:100|P|150:150|200:100|C|x:y",
                "B|10:10|10:10|20:20|L|5:",
                "P|300:200|350:250|L|",
            ]);
            let line = format!("120,140,{t},2,0,{bad},1,140");
            if rng.chance(0.6) || m.objects.is_empty() {
                m.objects.push(line);
            } else {
                let at = rng.usize(m.objects.len());
                m.objects.insert(at, line);
            }
        }
    }
    let n_calls = 2 + rng.usize(6);
    let mut calls = Vec::new();
    for _ in 0..n_calls {
        let map = rng.usize(n_maps);
        let target = if modes[map] == 0 {
            rng.weighted(&[40, 20, 20, 20])
        } else {
            modes[map]
        };
        let kind = KINDS[rng.weighted(&[3, 3, 14, 5, 5, 5, 12, 8, 12, 8, 8, 5, 6, 12])];
        let n = maps[map].objects.len() as u32;
        calls.push(CallSpec {
            kind: kind.to_owned(),
            map,
            target,
            diff: gen_diff(rng, target),
            score: gen_score(rng, n.max(1)),
            k: rng.below(u64::from(n) + 2) as u32,
        });
    }
    let len = 6 + rng.usize(if tier == Tier::Quick { 24 } else { 50 });
    let ev_rate = *rng.pick(&[0.0, 0.1, 0.25, 0.4]);
    let mut ops = Vec::new();
    for _ in 0..len {
        if rng.chance(ev_rate) {
            ops.push(match rng.weighted(&[40, 30, 15, 15]) {
                0 => HOp::HashUniverse,
                1 => HOp::AllocNoise(1 + rng.below(40) as u32),
                2 => HOp::ClockJump(rng.range(-1_000_000_000_000, 10_000_000_000_000)),
                _ => HOp::AllocReseed(*rng.pick(&[0xA5u8, 0xFF, 0x01, 0x7F, 0xCD])),
            });
        } else {
            if rng.chance(0.12) {
                ops.push(HOp::CallRemodded { i: rng.usize(n_calls) });
            } else {
                ops.push(HOp::Call {
                    i: rng.usize(n_calls),
                    reuse: rng.chance(0.3),
                });
            }
        }
    }
    HistCase {
        hash_seed: rng.next_u64(),
        maps,
        calls,
        ops,
    }
}

struct World {
    maps: Vec<Beatmap>,
    texts: Vec<String>,
    /// builder values kept across calls ("reused builder")
    kept: BTreeMap<usize, Difficulty>,
}

fn exec_call(w: &mut World, c: &CallSpec, i: usize, reuse: u8) -> String {
    let map = &w.maps[c.map];
    let d: Difficulty = match reuse {
        1 => w.kept.entry(i).or_insert_with(|| c.diff.build()).clone(),
        2 => {
            // same settings but other mods, used once, then re-configured with the call's own mods
            let mut other = c.diff.clone();
            other.mods = Some(crate::spec::ModsSpec::Bits(if c.target == 3 { 64 + 32768 } else { 64 + 8 }));
            let d0 = other.build();
            let _ = crate::runner::guard(|| sut::oneshot_diff(&d0, map, c.target));
            match &c.diff.mods {
                Some(m) => m.apply_diff(d0),
                None => d0.mods(0u32),
            }
        }
        _ => c.diff.build(),
    };
    let mode = MODES[c.target];
    let mods = c.diff.mods.as_ref().map(crate::spec::ModsSpec::build).unwrap_or_else(|| 0u32.into());
    match c.kind.as_str() {
        "decode_bytes" => format!("{:?}", Beatmap::from_bytes(w.texts[c.map].as_bytes())),
        "decode_str" => format!("{:?}", w.texts[c.map].parse::<Beatmap>()),
        "bpm" => format!("{:?}", map.bpm().to_bits()),
        "convert_owned" => format!("{:?}", map.clone().convert(mode, &mods)),
        "convert_ref" => format!("{:?}", map.convert_ref(mode, &mods).map(std::borrow::Cow::into_owned)),
        "convert_mut" => {
            let mut m = map.clone();
            let r = m.convert_mut(mode, &mods);
            format!("{r:?} {m:?}")
        }
        "calc" => format!("{:?}", sut::oneshot_diff(&d, map, c.target)),
        "calc_temp" => {
            let tmp = Box::new(sut::decode(&w.texts[c.map]));
            let r = format!("{:?}", sut::oneshot_diff(&d, &tmp, c.target));
            drop(tmp);
            r
        }
        "strains" => format!("{:?}", sut::oneshot_strains(&d, map, c.target)),
        "perf" => {
            let p = Performance::new(map).difficulty(d).try_mode(mode);
            match p {
                Ok(p) => sut::dig_pa(&c.score.apply(p).calculate()),
                Err(_) => "convert-error".into(),
            }
        }
        "perf_from_attrs" => match map.convert_ref(mode, &mods) {
            Ok(m) => {
                let attrs: DifficultyAttributes = d.calculate(&m);
                let p = Performance::new(attrs).difficulty(d);
                sut::dig_pa(&c.score.apply(p).calculate())
            }
            Err(e) => format!("{e:?}"),
        },
        "grad_diff" => match AnyGD::new(d, map, c.target, c.k % 2 == 0) {
            Ok(mut g) => {
                let mut out = Vec::new();
                for _ in 0..c.k {
                    out.push(g.next());
                }
                out.push(g.nth(1));
                format!("{out:?} rest={}", g.len())
            }
            Err(e) => e,
        },
        "grad_perf" => match AnyGP::new(d, map, c.target, c.k % 2 == 0) {
            Ok(mut g) => {
                let st = c.score.state.clone().unwrap_or_default().build();
                let mut out = Vec::new();
                for _ in 0..c.k.min(6) {
                    out.push(g.next(st.clone()));
                }
                out.push(g.last(st));
                format!("{out:?}")
            }
            Err(e) => e,
        },
        _ => {
            // attrs
            let a = map.attributes().difficulty(&d).build();
            let h = map.attributes().difficulty(&d).hit_windows();
            format!("{a:?} {h:?}")
        }
    }
}

fn memo_key(c: &CallSpec) -> String {
    let mut j = c.to_json();
    if c.kind == "calc_temp" {
        // same logical call as on the pool map: must give the same value
        j["kind"] = json!("calc");
    }
    j.to_string()
}

fn exec(case: &HistCase, st: &mut Stats) -> Option<Violation> {
    // the whole run lives on a fresh thread so that its hash keys come from the
    // (re)seeded shim and not from whatever this worker process did before, and inside the
    // deterministic arena so that its heap addresses do not depend on that either
    let shim = seams::set_hash_seed(case.hash_seed);
    seams::set_clock(1_700_000_000_000_000_000, case.hash_seed ^ 0xC10C);
    if !shim {
        st.probe("shim_absent");
    }
    let arena = !cfg!(miri) && seams::arena_reset();
    if !arena {
        st.probe("arena_unavailable");
    }
    let (violation, local) = {
        if arena {
            seams::arena_on(true);
        }
        let mut local = Stats::default();
        let r = std::thread::scope(|s| {
            s.spawn(|| exec_inner(case, &mut local))
                .join()
                .unwrap_or_else(|_| Some(Violation::new("C01/harness-thread-panicked", "")))
        });
        seams::arena_on(false);
        seams::set_alloc_junk(0);
        // copy what outlives the run out of the arena (it is forgotten at the next reset)
        let v = r.as_ref().map(|v| Violation::new(v.key.as_str().to_owned(), v.detail.as_str().to_owned()));
        let mut copy = Stats::default();
        copy.merge(&local);
        drop(r);
        drop(local);
        (v, copy)
    };
    st.merge(&local);
    violation
}

fn exec_inner(case: &HistCase, st: &mut Stats) -> Option<Violation> {
    let texts: Vec<String> = case.maps.iter().map(MapText::render).collect();
    let maps: Vec<Beatmap> = texts.iter().map(|t| sut::decode(t)).collect();
    let pristine = maps.clone();
    let mut w = World {
        maps,
        texts,
        kept: BTreeMap::new(),
    };
    let mut memo: BTreeMap<String, (String, usize, &'static str)> = BTreeMap::new();
    let mut fresh_thread = false;
    let mut noise: Vec<Vec<u8>> = Vec::new();
    let mut last_env = "none";
    for (seq, op) in case.ops.iter().enumerate() {
        match op {
            HOp::HashUniverse => {
                st.fault("new_hash_universe");
                fresh_thread = true;
                last_env = "hash_universe";
            }
            HOp::AllocNoise(n) => {
                st.fault("alloc_noise");
                let mut r = Rng::new(u64::from(*n) ^ case.hash_seed);
                for _ in 0..*n {
                    noise.push(vec![0x5Au8; 16 + r.usize(4000)]);
                }
                // free every other block: holes of assorted sizes
                let mut i = 0;
                noise.retain(|_| {
                    i += 1;
                    i % 2 == 0
                });
                last_env = "alloc_noise";
            }
            HOp::ClockJump(ns) => {
                st.fault("clock_jump");
                seams::set_clock(1_700_000_000_000_000_000 + ns, case.hash_seed ^ (seq as u64));
                last_env = "clock_jump";
            }
            HOp::AllocReseed(b) => {
                st.fault("alloc_reseed");
                seams::set_alloc_junk(*b);
                last_env = "alloc_reseed";
            }
            HOp::Call { .. } | HOp::CallRemodded { .. } => {
                let (i, reuse) = match op {
                    HOp::Call { i, reuse } => (i, u8::from(*reuse)),
                    HOp::CallRemodded { i } => (i, 2u8),
                    _ => unreachable!(),
                };
                let Some(c) = case.calls.get(*i) else { continue };
                if c.map >= w.maps.len() {
                    continue;
                }
                let mm = mode_idx(w.maps[c.map].mode);
                if mm != c.target && mm != 0 && !matches!(c.kind.as_str(), "bpm" | "decode_bytes" | "decode_str" | "convert_owned" | "convert_ref" | "convert_mut") {
                    st.probe("skipped_invalid_target");
                    continue;
                }
                st.ops += 1;
                if reuse == 1 {
                    st.fault("reused_builder");
                } else if reuse == 2 {
                    st.fault("remodded_builder");
                }
                let res = if fresh_thread {
                    fresh_thread = false;
                    std::thread::scope(|s| {
                        let w = &mut w;
                        s.spawn(move || guard(|| exec_call(w, c, *i, reuse)))
                            .join()
                            .unwrap_or_else(|_| Err("?|thread".into()))
                    })
                } else {
                    guard(|| exec_call(&mut w, c, *i, reuse))
                };
                let dig = match res {
                    Ok(d) => d,
                    Err(p) => format!("PANIC {}", panic_site(&p)),
                };
                let key = memo_key(c);
                match memo.get(&key) {
                    None => {
                        memo.insert(key, (dig, seq, last_env));
                    }
                    Some((first, at, _)) => {
                        st.probe("repeat_compared");
                        if *first != dig {
                            let field = crate::grad::first_diff_field(first, &dig);
                            return Some(Violation::new(
                                format!("C01/{}/{}/differs-between-calls", c.kind, mode_name(c.target)),
                                format!(
                                    "op #{seq} ({}, map {}, after env event {last_env}) returned a different value than op #{at}; first differing field: {field}; first={} now={}",
                                    c.kind,
                                    c.map,
                                    &first[..first.len().min(300)],
                                    &dig[..dig.len().min(300)]
                                ),
                            ));
                        }
                    }
                }
                for (mi, (m, p)) in w.maps.iter().zip(pristine.iter()).enumerate() {
                    if m != p && format!("{m:?}") != format!("{p:?}") {
                        return Some(Violation::new(
                            format!("C01/{}/{}/map-modified", c.kind, mode_name(c.target)),
                            format!("map {mi} given by reference changed during op #{seq}"),
                        ));
                    }
                }
                last_env = "none";
            }
        }
    }
    if seams::clock_reads() > 0 {
        st.probe("clock_was_read_by_process");
    }
    None
}

fn simpler(c: &HistCase) -> Vec<HistCase> {
    let mut out = Vec::new();
    let n = c.ops.len();
    if n > 2 {
        let mut x = c.clone();
        x.ops.truncate(n / 2);
        out.push(x);
        let mut x = c.clone();
        x.ops.drain(..n / 2);
        out.push(x);
    }
    for i in (0..n).rev() {
        let mut x = c.clone();
        x.ops.remove(i);
        out.push(x);
    }
    for (mi, m) in c.maps.iter().enumerate() {
        for s in m.simpler() {
            let mut x = c.clone();
            x.maps[mi] = s;
            out.push(x);
        }
    }
    for (ci, call) in c.calls.iter().enumerate() {
        for d in call.diff.simpler() {
            let mut x = c.clone();
            x.calls[ci].diff = d;
            out.push(x);
        }
        if call.score != ScoreSpec::default() {
            let mut x = c.clone();
            x.calls[ci].score = ScoreSpec::default();
            out.push(x);
        }
        if call.k > 0 {
            let mut x = c.clone();
            x.calls[ci].k /= 2;
            out.push(x);
        }
    }
    out
}

pub struct C01Engine;

impl Engine for C01Engine {
    type Case = HistCase;
    fn name() -> &'static str {
        "c01"
    }
    fn gen(rng: &mut Rng, tier: Tier) -> HistCase {
        gen_case(rng, tier)
    }
    fn exec(case: &HistCase, stats: &mut Stats) -> Option<Violation> {
        exec(case, stats)
    }
    fn simpler(case: &HistCase) -> Vec<HistCase> {
        simpler(case)
    }
    fn to_json(c: &HistCase) -> Value {
        json!({
            "hash_seed": c.hash_seed.to_string(),
            "maps": c.maps.iter().map(MapText::to_json).collect::<Vec<_>>(),
            "calls": c.calls.iter().map(CallSpec::to_json).collect::<Vec<_>>(),
            "ops": c.ops.iter().map(HOp::to_json).collect::<Vec<_>>(),
        })
    }
    fn from_json(v: &Value) -> HistCase {
        HistCase {
            hash_seed: v["hash_seed"].as_str().and_then(|s| s.parse().ok()).unwrap_or(0),
            maps: v["maps"].as_array().map(|a| a.iter().map(MapText::from_json).collect()).unwrap_or_default(),
            calls: v["calls"].as_array().map(|a| a.iter().map(CallSpec::from_json).collect()).unwrap_or_default(),
            ops: v["ops"].as_array().map(|a| a.iter().map(HOp::from_json).collect()).unwrap_or_default(),
        }
    }
    fn signature(c: &HistCase) -> u64 {
        let kinds: Vec<String> = c
            .ops
            .iter()
            .map(|o| match o {
                HOp::Call { i, reuse } => format!(
                    "{}{}:{}",
                    c.calls.get(*i).map_or("?", |c| c.kind.as_str()),
                    if *reuse { "*" } else { "" },
                    i
                ),
                HOp::CallRemodded { i } => format!("{}~:{}", c.calls.get(*i).map_or("?", |c| c.kind.as_str()), i),
                other => other.kind().to_owned(),
            })
            .collect();
        fnv(format!("{kinds:?}").as_bytes())
    }
    fn nontrivial(c: &HistCase) -> bool {
        c.ops.iter().any(|o| !matches!(o, HOp::Call { reuse: false, .. }))
    }
}

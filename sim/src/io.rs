//! E2 for C06: the decoder is driven through its existing I/O seam
//! (`<Beatmap as DecodeBeatmap>::decode(impl BufRead)`) by a simulated reader that
//! injects short reads, EINTR, hard errors and premature EOF at seeded (or
//! enumerated) offsets, over stored bytes that went through seeded storage faults
//! (torn file, bit flips, lost / duplicated / reordered lines, corrupted numbers,
//! re-encoding). Oracles: totality, schedule independence against the single-chunk
//! decode, error containment, torn-file equivalence, entry-point agreement,
//! well-formedness of every decoded map and compositional object/sound pairing.

use std::io::{self, BufRead, ErrorKind, Read};

use rosu_map::{section::general::GameMode, DecodeBeatmap};
use rosu_pp::{
    model::hit_object::{HitObject, HitObjectKind},
    Beatmap,
};
use serde_json::{json, Value};

use crate::{
    mapgen::{gen_map, gen_shape, real_window, MapText},
    prng::{fnv, Rng},
    runner::{guard, panic_site, Engine, Stats, Tier, Violation},
};

// ------------------------------------------------------------ simulated reader

#[derive(Clone, Debug, Default, PartialEq)]
pub struct Plan {
    /// maximum size of successive `fill_buf` windows: the first entry is used once,
    /// the remaining ones cycle (a single entry cycles itself); empty = unlimited
    pub chunks: Vec<usize>,
    /// byte offsets at which the next read attempt fails once with `Interrupted`
    pub eintr_at: Vec<usize>,
    /// persistent hard error once the read position reaches this offset
    pub fail_at: Option<usize>,
    /// the stored file ends here (torn write)
    pub eof_at: Option<usize>,
}

impl Plan {
    fn to_json(&self) -> Value {
        json!({"chunks": self.chunks, "eintr_at": self.eintr_at, "fail_at": self.fail_at, "eof_at": self.eof_at})
    }
    fn from_json(v: &Value) -> Self {
        let list = |k: &str| -> Vec<usize> {
            v[k].as_array()
                .map(|a| a.iter().filter_map(|x| x.as_u64().map(|n| n as usize)).collect())
                .unwrap_or_default()
        };
        Plan {
            chunks: list("chunks"),
            eintr_at: list("eintr_at"),
            fail_at: v["fail_at"].as_u64().map(|n| n as usize),
            eof_at: v["eof_at"].as_u64().map(|n| n as usize),
        }
    }
}

pub struct SimReader<'a> {
    data: &'a [u8],
    pos: usize,
    plan: &'a Plan,
    chunk_i: usize,
    eintr_fired: Vec<bool>,
    window: usize,
    pub fills: usize,
    pub eintrs: usize,
    pub first_fill_len: Option<usize>,
    pub hard_errors: usize,
}

impl<'a> SimReader<'a> {
    pub fn new(data: &'a [u8], plan: &'a Plan) -> Self {
        let end = plan.eof_at.map_or(data.len(), |k| k.min(data.len()));
        Self {
            data: &data[..end],
            pos: 0,
            plan,
            chunk_i: 0,
            eintr_fired: vec![false; plan.eintr_at.len()],
            window: 0,
            fills: 0,
            eintrs: 0,
            first_fill_len: None,
            hard_errors: 0,
        }
    }
}

impl BufRead for SimReader<'_> {
    fn fill_buf(&mut self) -> io::Result<&[u8]> {
        for (i, at) in self.plan.eintr_at.iter().enumerate() {
            if !self.eintr_fired[i] && *at <= self.pos {
                self.eintr_fired[i] = true;
                self.eintrs += 1;
                return Err(io::Error::new(ErrorKind::Interrupted, "simulated EINTR"));
            }
        }
        if let Some(k) = self.plan.fail_at {
            if self.pos >= k {
                self.hard_errors += 1;
                return Err(io::Error::new(ErrorKind::Other, "simulated disk error"));
            }
        }
        let avail = self.data.len() - self.pos;
        // a window that was exposed but not fully consumed stays exposed
        if self.window == 0 || self.window > avail {
            let mut w = avail;
            if !self.plan.chunks.is_empty() {
                let ch = &self.plan.chunks;
                let c = if self.chunk_i == 0 || ch.len() == 1 {
                    ch[0]
                } else {
                    ch[1 + (self.chunk_i - 1) % (ch.len() - 1)]
                }
                .max(1);
                self.chunk_i += 1;
                w = w.min(c);
            }
            // never expose bytes beyond a pending hard error
            if let Some(k) = self.plan.fail_at {
                if k > self.pos {
                    w = w.min(k - self.pos);
                }
            }
            self.window = w;
        }
        self.fills += 1;
        if self.first_fill_len.is_none() {
            self.first_fill_len = Some(self.window);
        }
        Ok(&self.data[self.pos..self.pos + self.window])
    }

    fn consume(&mut self, amt: usize) {
        let amt = amt.min(self.window);
        self.pos += amt;
        self.window -= amt;
    }
}

impl Read for SimReader<'_> {
    fn read(&mut self, buf: &mut [u8]) -> io::Result<usize> {
        let src = self.fill_buf()?;
        let n = src.len().min(buf.len());
        buf[..n].copy_from_slice(&src[..n]);
        self.consume(n);
        Ok(n)
    }
}

pub fn decode_with(data: &[u8], plan: &Plan) -> (io::Result<Beatmap>, Option<usize>, usize, usize) {
    let mut r = SimReader::new(data, plan);
    let res = <Beatmap as DecodeBeatmap>::decode(&mut r);
    (res, r.first_fill_len, r.eintrs, r.hard_errors)
}

// ------------------------------------------------------------ stored-byte faults

const BAD_NUMBERS: [&str; 30] = [
    "nan", "NaN", "-nan", "inf", "-inf", "1e400", "-1e400", "2147483647", "2147483648", "-2147483648",
    "-2147483649", "131072", "131073", "-131073", "9000", "9001", "0", "-0", "1e-320", "", "abc", "1e9",
    "2147483647", "-2147483647", "2147483000", "2000000000", "-2000000000", "16777217", "131072", "-131072",
];

fn split_lines(data: &[u8]) -> Vec<Vec<u8>> {
    data.split_inclusive(|b| *b == b'\n').map(<[u8]>::to_vec).collect()
}

/// Applies one storage fault; returns its name.
pub fn storage_fault(rng: &mut Rng, data: &mut Vec<u8>) -> &'static str {
    if data.is_empty() {
        data.extend_from_slice(b"osu file format v14\n");
        return "fill_empty";
    }
    match rng.weighted(&[10, 8, 6, 8, 8, 8, 6, 14, 4, 3, 3, 4, 3, 3, 7]) {
        0 => {
            let k = rng.usize(data.len() + 1);
            data.truncate(k);
            "truncate"
        }
        1 => {
            let i = rng.usize(data.len());
            data[i] ^= 1 << rng.usize(8);
            "bit_flip"
        }
        2 => {
            let i = rng.usize(data.len());
            data[i] = rng.below(256) as u8;
            "byte_overwrite"
        }
        3 => {
            let mut l = split_lines(data);
            let i = rng.usize(l.len());
            l.remove(i);
            *data = l.concat();
            "line_drop"
        }
        4 => {
            let mut l = split_lines(data);
            let i = rng.usize(l.len());
            let j = rng.usize(l.len() + 1);
            let x = l[i].clone();
            l.insert(j, x);
            *data = l.concat();
            "line_duplicate"
        }
        5 => {
            let mut l = split_lines(data);
            if l.len() > 1 {
                let i = rng.usize(l.len());
                let j = rng.usize(l.len());
                l.swap(i, j);
            }
            *data = l.concat();
            "line_swap"
        }
        6 => {
            // reorder a window of lines (lost ordering of a batch of writes)
            let mut l = split_lines(data);
            if l.len() > 2 {
                let a = rng.usize(l.len() - 1);
                let b = (a + 2 + rng.usize(8)).min(l.len());
                rng.shuffle(&mut l[a..b]);
            }
            *data = l.concat();
            "line_shuffle_window"
        }
        7 => {
            // corrupt one numeric token
            let text = String::from_utf8_lossy(data).into_owned();
            let mut spans = Vec::new();
            let b = text.as_bytes();
            let mut i = 0;
            while i < b.len() {
                if b[i].is_ascii_digit() || (b[i] == b'-' && i + 1 < b.len() && b[i + 1].is_ascii_digit()) {
                    let s = i;
                    i += 1;
                    while i < b.len() && (b[i].is_ascii_digit() || b[i] == b'.') {
                        i += 1;
                    }
                    spans.push((s, i));
                } else {
                    i += 1;
                }
            }
            if spans.is_empty() {
                return "number_corrupt_none";
            }
            let (s, e) = spans[rng.usize(spans.len())];
            let rep = *rng.pick(&BAD_NUMBERS);
            let mut out = text[..s].to_owned();
            out.push_str(rep);
            out.push_str(&text[e..]);
            *data = out.into_bytes();
            "number_corrupt"
        }
        8 => {
            let mut out = vec![0xEF, 0xBB, 0xBF];
            out.extend_from_slice(data);
            *data = out;
            "utf8_bom"
        }
        9 => {
            let text = String::from_utf8_lossy(data).into_owned();
            let mut out = vec![0xFF, 0xFE];
            for u in text.encode_utf16() {
                out.extend_from_slice(&u.to_le_bytes());
            }
            *data = out;
            "reencode_utf16le"
        }
        10 => {
            let text = String::from_utf8_lossy(data).into_owned();
            let mut out = vec![0xFE, 0xFF];
            for u in text.encode_utf16() {
                out.extend_from_slice(&u.to_be_bytes());
            }
            *data = out;
            "reencode_utf16be"
        }
        11 => {
            let i = rng.usize(data.len() + 1);
            let bad: &[u8] = *rng.pick(&[&[0xFFu8][..], &[0xC3], &[0xE2, 0x82], &[0xF0, 0x9F, 0x98], &[0x80], &[0xED, 0xA0, 0x80]]);
            let tail = data.split_off(i);
            data.extend_from_slice(bad);
            data.extend_from_slice(&tail);
            "invalid_utf8"
        }
        12 => {
            let text = String::from_utf8_lossy(data).replace('\n', "\r\n");
            *data = text.into_bytes();
            "crlf"
        }
        13 => {
            let n = 1 + rng.usize(200);
            *data = (0..n).map(|_| rng.below(256) as u8).collect();
            "noise"
        }
        _ => {
            // whole sections written in another order, or one of them written twice (a merge of two
            // versions of the file): the decoder must not depend on the canonical section order
            let text = String::from_utf8_lossy(data).into_owned();
            let mut blocks: Vec<String> = Vec::new();
            for line in text.split_inclusive('\n') {
                if line.trim_start().starts_with('[') || blocks.is_empty() {
                    blocks.push(String::new());
                }
                blocks.last_mut().unwrap().push_str(line);
            }
            if blocks.len() < 3 {
                return "section_reorder_none";
            }
            if rng.chance(0.5) {
                let i = 1 + rng.usize(blocks.len() - 1);
                let j = 1 + rng.usize(blocks.len() - 1);
                blocks.swap(i, j);
            } else {
                let i = 1 + rng.usize(blocks.len() - 1);
                let mut dup = blocks[i].clone();
                if dup.contains("Mode:") {
                    let m = rng.below(4);
                    dup = dup
                        .lines()
                        .map(|l| if l.starts_with("Mode:") { format!("Mode: {m}") } else { l.to_owned() })
                        .collect::<Vec<_>>()
                        .join("\n")
                        + "\n";
                }
                blocks.push(dup);
            }
            *data = blocks.concat().into_bytes();
            "section_reorder"
        }
    }
}

// ------------------------------------------------------------ case

#[derive(Clone, Debug)]
pub struct IoCase {
    pub content: Vec<u8>,
    pub storage_faults: Vec<String>,
    pub plan: Plan,
    /// enumerate every split point / truncation / EINTR / error offset
    pub enumerate: bool,
    pub check_path: bool,
}

fn content_to_json(c: &[u8]) -> Value {
    match std::str::from_utf8(c) {
        Ok(s) if !s.contains('\u{0}') => json!({"text": s}),
        _ => json!({"hex": c.iter().map(|b| format!("{b:02x}")).collect::<String>()}),
    }
}

fn content_from_json(v: &Value) -> Vec<u8> {
    if let Some(s) = v["text"].as_str() {
        return s.as_bytes().to_vec();
    }
    let h = v["hex"].as_str().unwrap_or("");
    (0..h.len() / 2)
        .filter_map(|i| u8::from_str_radix(&h[2 * i..2 * i + 2], 16).ok())
        .collect()
}

fn gen_offset(rng: &mut Rng, data: &[u8]) -> usize {
    // biased to places where the decoder holds in-flight state
    let n = data.len();
    if n == 0 {
        return 0;
    }
    match rng.below(6) {
        0 => rng.usize(4.min(n + 1)), // inside the BOM
        1 | 2 => {
            // around a line end
            let nl: Vec<usize> = data.iter().enumerate().filter(|(_, b)| **b == b'\n').map(|(i, _)| i).collect();
            if nl.is_empty() {
                rng.usize(n + 1)
            } else {
                let p = nl[rng.usize(nl.len())];
                (p + rng.usize(3)).saturating_sub(1).min(n)
            }
        }
        3 => n - rng.usize(3.min(n)), // at / just before the end
        _ => rng.usize(n + 1),
    }
}

fn gen_plan(rng: &mut Rng, data: &[u8]) -> Plan {
    let mut p = Plan::default();
    match rng.below(6) {
        0 => {}
        1 => p.chunks = vec![1],
        2 => p.chunks = vec![*rng.pick(&[2usize, 3, 4, 5, 7, 16, 64])],
        3 => {
            let first = gen_offset(rng, data).max(1);
            p.chunks = vec![first, usize::MAX >> 1];
        }
        _ => {
            let n = 1 + rng.usize(6);
            p.chunks = (0..n)
                .map(|_| {
                    let m = *rng.pick(&[3usize, 8, 40, 300]);
                    1 + rng.usize(m)
                })
                .collect();
        }
    }
    // the decoder's BOM sniffing loses a first window of 1-2 bytes (known finding in the
    // dependency); keep that to a small slice of the runs so it does not mask everything else
    if !p.chunks.is_empty() && p.chunks[0] < 3 && !rng.chance(0.04) {
        p.chunks.insert(0, 3 + rng.usize(6));
    }
    let n_eintr = *rng.pick(&[0usize, 0, 1, 1, 2, 5]);
    for _ in 0..n_eintr {
        p.eintr_at.push(gen_offset(rng, data));
    }
    match rng.below(10) {
        0 | 1 => p.fail_at = Some(gen_offset(rng, data)),
        2 | 3 => p.eof_at = Some(gen_offset(rng, data)),
        _ => {}
    }
    p
}

fn gen_case(rng: &mut Rng, tier: Tier) -> IoCase {
    let max_n = if tier == Tier::Quick { 14 } else { 40 };
    let max_n = if cfg!(miri) { 5 } else { max_n };
    let base: MapText = if !cfg!(miri) && rng.chance(0.15) {
        let idx = rng.usize(4);
        real_window(rng, idx, max_n)
    } else {
        let mode = rng.usize(4);
        let mut sh = gen_shape(rng, mode, max_n);
        sh.version = rng.range(3, 14) as i32;
        if rng.chance(0.3) {
            sh.version = 14;
        }
        gen_map(rng, &sh)
    };
    let mut content = base.render().into_bytes();
    let mut storage_faults = Vec::new();
    let n_faults = *rng.pick(&[0usize, 0, 1, 1, 1, 2, 2, 3, 4]);
    for _ in 0..n_faults {
        storage_faults.push(storage_fault(rng, &mut content).to_owned());
    }
    let enumerate = !cfg!(miri) && content.len() <= 600 && rng.chance(0.12);
    let plan = if enumerate {
        Plan::default()
    } else {
        gen_plan(rng, &content)
    };
    IoCase {
        content,
        storage_faults,
        plan,
        enumerate,
        check_path: !cfg!(miri) && rng.chance(0.08),
    }
}

// ------------------------------------------------------------ oracles

fn is_utf16le(data: &[u8]) -> bool {
    data.starts_with(&[0xFF, 0xFE])
}

fn same_map(a: &Beatmap, b: &Beatmap) -> bool {
    a == b || format!("{a:?}") == format!("{b:?}")
}

fn same_result(a: &io::Result<Beatmap>, b: &io::Result<Beatmap>) -> bool {
    match (a, b) {
        (Ok(x), Ok(y)) => same_map(x, y),
        (Err(x), Err(y)) => x.kind() == y.kind(),
        _ => false,
    }
}

fn describe(r: &io::Result<Beatmap>) -> String {
    match r {
        Ok(m) => format!(
            "Ok(mode {:?}, {} objects, {} timing, {} difficulty, {} effect points)",
            m.mode,
            m.hit_objects.len(),
            m.timing_points.len(),
            m.difficulty_points.len(),
            m.effect_points.len()
        ),
        Err(e) => format!("Err({:?}: {e})", e.kind()),
    }
}

fn strictly_increasing(times: impl Iterator<Item = f64>) -> Option<(f64, f64)> {
    let mut prev: Option<f64> = None;
    for t in times {
        if let Some(p) = prev {
            if p.total_cmp(&t) != std::cmp::Ordering::Less {
                return Some((p, t));
            }
        }
        prev = Some(t);
    }
    None
}

// parser limit is i32::MAX, which rounds to 2^31 in f32
const MAX_TIME: f64 = 2_147_483_648.0;
const MAX_COORD: f32 = 131_072.0;

/// Oracle 6: well-formedness of a decoded map.
pub fn well_formed(m: &Beatmap) -> Result<(), (String, String)> {
    let bad = |k: &str, d: String| Err((k.to_owned(), d));
    if m.hit_sounds.len() != m.hit_objects.len() {
        return bad("sounds-count", format!("{} sounds for {} objects", m.hit_sounds.len(), m.hit_objects.len()));
    }
    for w in m.hit_objects.windows(2) {
        if w[0].start_time.total_cmp(&w[1].start_time) == std::cmp::Ordering::Greater {
            return bad("objects-unsorted", format!("{} before {}", w[0].start_time, w[1].start_time));
        }
    }
    if let Some((a, b)) = strictly_increasing(m.timing_points.iter().map(|p| p.time)) {
        return bad("timing-points-not-strictly-ordered", format!("{a} then {b}"));
    }
    if let Some((a, b)) = strictly_increasing(m.difficulty_points.iter().map(|p| p.time)) {
        return bad("difficulty-points-not-strictly-ordered", format!("{a} then {b}"));
    }
    if let Some((a, b)) = strictly_increasing(m.effect_points.iter().map(|p| p.time)) {
        return bad("effect-points-not-strictly-ordered", format!("{a} then {b}"));
    }
    let rng_chk = |name: &str, v: f64, lo: f64, hi: f64| -> Result<(), (String, String)> {
        if v.is_finite() && v >= lo && v <= hi {
            Ok(())
        } else {
            Err((format!("field-{name}"), format!("{name} = {v} outside [{lo}, {hi}]")))
        }
    };
    rng_chk("hp", f64::from(m.hp), 0.0, 10.0)?;
    rng_chk("od", f64::from(m.od), 0.0, 10.0)?;
    rng_chk("ar", f64::from(m.ar), 0.0, 10.0)?;
    if m.mode == GameMode::Mania {
        rng_chk("cs", f64::from(m.cs), 1.0, 18.0)?;
    } else {
        rng_chk("cs", f64::from(m.cs), 0.0, 10.0)?;
    }
    rng_chk("slider_multiplier", m.slider_multiplier, 0.4, 3.6)?;
    rng_chk("slider_tick_rate", m.slider_tick_rate, 0.5, 8.0)?;
    rng_chk("stack_leniency", f64::from(m.stack_leniency), -MAX_TIME, MAX_TIME)?;
    for p in &m.timing_points {
        rng_chk("timing.time", p.time, -MAX_TIME, MAX_TIME)?;
        rng_chk("timing.beat_len", p.beat_len, 6.0, 60_000.0)?;
    }
    for p in &m.difficulty_points {
        rng_chk("difficulty.time", p.time, -MAX_TIME, MAX_TIME)?;
        rng_chk("difficulty.slider_velocity", p.slider_velocity, 0.1, 10.0)?;
        rng_chk("difficulty.bpm_multiplier", p.bpm_multiplier, 0.1, 100.0)?;
    }
    for p in &m.effect_points {
        rng_chk("effect.time", p.time, -MAX_TIME, MAX_TIME)?;
        rng_chk("effect.scroll_speed", p.scroll_speed, 0.01, 10.0)?;
    }
    for b in &m.breaks {
        rng_chk("break.start", b.start_time, -MAX_TIME, MAX_TIME)?;
        rng_chk("break.end", b.end_time, b.start_time, MAX_TIME)?;
    }
    for h in &m.hit_objects {
        rng_chk("object.start_time", h.start_time, -MAX_TIME, MAX_TIME)?;
        rng_chk("object.x", f64::from(h.pos.x), -f64::from(MAX_COORD), f64::from(MAX_COORD))?;
        rng_chk("object.y", f64::from(h.pos.y), -f64::from(MAX_COORD), f64::from(MAX_COORD))?;
        match &h.kind {
            HitObjectKind::Circle => {}
            HitObjectKind::Slider(s) => {
                if let Some(d) = s.expected_dist {
                    rng_chk("slider.expected_dist", d, 0.0, f64::from(MAX_COORD))?;
                }
                if s.repeats > 8999 {
                    return bad("field-slider.repeats", format!("{} repeats", s.repeats));
                }
                if s.node_sounds.len() != s.repeats + 2 {
                    return bad("slider-node-sounds", format!("{} node sounds for {} repeats", s.node_sounds.len(), s.repeats));
                }
                for cp in s.control_points.iter() {
                    rng_chk("slider.point.x", f64::from(cp.pos.x), -2.0 * f64::from(MAX_COORD), 2.0 * f64::from(MAX_COORD))?;
                    rng_chk("slider.point.y", f64::from(cp.pos.y), -2.0 * f64::from(MAX_COORD), 2.0 * f64::from(MAX_COORD))?;
                }
            }
            HitObjectKind::Spinner(s) => rng_chk("spinner.duration", s.duration, 0.0, 2.0 * MAX_TIME)?,
            HitObjectKind::Hold(s) => rng_chk("hold.duration", s.duration, 0.0, 2.0 * MAX_TIME)?,
        }
    }
    Ok(())
}

/// Identity of an object for the pairing oracle: what the property speaks about (which
/// object, in which order), deliberately not the slider path. (A malformed slider line can
/// leave control points in the decoder's scratch list that the next slider inherits; that is
/// not covered by C06's statement and is recorded in DESIGN.md as an observation only.)
fn ident(h: &HitObject) -> String {
    let kind = match &h.kind {
        HitObjectKind::Circle => "circle".to_owned(),
        HitObjectKind::Slider(s) => format!("slider r{} d{:?} n{:?}", s.repeats, s.expected_dist, s.node_sounds),
        HitObjectKind::Spinner(s) => format!("spinner {}", s.duration),
        HitObjectKind::Hold(s) => format!("hold {}", s.duration),
    };
    format!("t={} x={} y={} {kind}", h.start_time, h.pos.x, h.pos.y)
}

/// Oracle 7: the decoded (object, sound) list equals the stable sort by start
/// time of what each hit-object line decodes to on its own.
fn pairing(content: &[u8], whole: &Beatmap) -> Result<(), (String, String)> {
    if whole.mode == GameMode::Mania {
        return Ok(());
    }
    // only for single-byte encodings: lines are then cut at b'\n' exactly like the decoder does
    if content.starts_with(&[0xFF, 0xFE]) || content.starts_with(&[0xFE, 0xFF]) {
        return Ok(());
    }
    let lines = split_lines(content);
    // the decoder treats a section header as such after trimming; find the last state per line cheaply:
    // decode header-only prefix + candidate line and see whether it adds objects.
    let mut in_objects = false;
    let mut header: Vec<u8> = Vec::new();
    let mut pairs: Vec<(String, String, f64)> = Vec::new();
    for l in &lines {
        let t = String::from_utf8_lossy(l);
        let t = t.trim();
        if t.starts_with('[') && t.ends_with(']') {
            in_objects = t == "[HitObjects]";
            if !in_objects {
                header.extend_from_slice(l);
            }
            continue;
        }
        if !in_objects {
            header.extend_from_slice(l);
            continue;
        }
        let mut one = header.clone();
        if !one.ends_with(b"\n") && !one.is_empty() {
            one.push(b'\n');
        }
        one.extend_from_slice(b"[HitObjects]\n");
        one.extend_from_slice(l);
        let Ok(m) = Beatmap::from_bytes(&one) else { continue };
        for (h, s) in m.hit_objects.iter().zip(m.hit_sounds.iter()) {
            pairs.push((ident(h), format!("{s:?}"), h.start_time));
        }
    }
    if pairs.len() != whole.hit_objects.len() {
        // the header of the whole file may differ (e.g. sections repeated after [HitObjects]); not comparable
        return Ok(());
    }
    // The property fixes which sound belongs to which object and that objects are ordered by start
    // time; it does not fix the order among objects with equal start times. So: per start time, the
    // multiset of (object, sound) pairs of the whole file equals that of the single-line decodes.
    let mut got: Vec<(u64, String, String)> = whole
        .hit_objects
        .iter()
        .zip(whole.hit_sounds.iter())
        .map(|(h, s)| (h.start_time.to_bits(), ident(h), format!("{s:?}")))
        .collect();
    let mut exp: Vec<(u64, String, String)> = pairs.into_iter().map(|(i, s, t)| (t.to_bits(), i, s)).collect();
    got.sort();
    exp.sort();
    for (g, e) in got.iter().zip(exp.iter()) {
        if g != e {
            let class = if g.0 == e.0 && g.1 == e.1 { "sound-not-paired" } else { "objects-differ-from-their-lines" };
            return Err((
                class.into(),
                format!("whole file has ({}, sound {}), its own line says ({}, sound {})", g.1, g.2, e.1, e.2),
            ));
        }
    }
    Ok(())
}

fn check_plan(content: &[u8], reference: &io::Result<Beatmap>, plan: &Plan, st: &mut Stats) -> Option<Violation> {
    let (res, first_fill, eintrs, hard) = match guard(|| decode_with(content, plan)) {
        Ok(x) => x,
        Err(p) => {
            return Some(Violation::new(
                format!("C06/panic-in-decode-with-reader@{}", panic_site(&p)),
                p,
            ))
        }
    };
    if eintrs > 0 {
        st.fault("eintr");
    }
    if hard > 0 {
        st.fault("hard_io_error");
    }
    if !plan.chunks.is_empty() {
        st.fault("short_reads");
    }
    let end = plan.eof_at.map_or(content.len(), |k| k.min(content.len()));
    if plan.eof_at.is_some() {
        st.fault("premature_eof");
    }
    let stored = &content[..end];
    // what the single-chunk decode of the bytes that exist gives
    let torn_ref;
    let reference: &io::Result<Beatmap> = if end == content.len() {
        reference
    } else {
        torn_ref = Beatmap::from_bytes(stored);
        &torn_ref
    };
    let small_first = matches!(first_fill, Some(1 | 2)) && stored.len() > first_fill.unwrap_or(0);
    if small_first {
        st.probe("first_fill_1_or_2_bytes");
    }
    if hard > 0 {
        // a hard error may surface as Err, or be never reached; never a different map
        match &res {
            Err(_) => None,
            Ok(m) => match reference {
                Ok(r) if same_map(m, r) => None,
                _ => Some(Violation::new(
                    if small_first {
                        "C06/io-error-swallowed/first-fill-1-or-2"
                    } else {
                        "C06/io-error-swallowed"
                    },
                    format!(
                        "hard error at offset {:?} but decode returned {} (single-chunk reference: {})",
                        plan.fail_at,
                        describe(&res),
                        describe(reference)
                    ),
                )),
            },
        }
    } else if !same_result(&res, reference) {
        let key = if small_first {
            "C06/chunk-divergence/first-fill-1-or-2".to_owned()
        } else if plan.eof_at.is_some() {
            "C06/torn-file-divergence".to_owned()
        } else if eintrs > 0 && plan.chunks.is_empty() {
            "C06/eintr-visible".to_owned()
        } else {
            "C06/chunk-divergence".to_owned()
        };
        Some(Violation::new(
            key,
            format!(
                "plan {} gave {}, single-chunk decode of the same bytes gives {}",
                plan.to_json(),
                describe(&res),
                describe(reference)
            ),
        ))
    } else {
        None
    }
}

fn exec(c: &IoCase, st: &mut Stats) -> Option<Violation> {
    for f in &c.storage_faults {
        st.fault(&format!("storage_{f}"));
    }
    let content = &c.content;
    // oracle 1: totality
    let reference = match guard(|| Beatmap::from_bytes(content)) {
        Ok(r) => r,
        Err(p) => return Some(Violation::new(format!("C06/panic-in-from_bytes@{}", panic_site(&p)), p)),
    };
    st.ops += 1;
    match &reference {
        Err(e) => {
            let documented = is_utf16le(content) && e.kind() == ErrorKind::UnexpectedEof;
            if documented {
                st.probe("utf16le_trailing_lf_eof");
            } else {
                return Some(Violation::new(
                    format!("C06/in-memory-decode-failed/{:?}", e.kind()),
                    format!("from_bytes returned {e} for in-memory bytes"),
                ));
            }
        }
        Ok(m) => {
            if let Err((k, d)) = well_formed(m) {
                return Some(Violation::new(format!("C06/malformed/{k}"), d));
            }
            match guard(|| pairing(content, m)) {
                Ok(Ok(())) => {}
                Ok(Err((k, d))) => return Some(Violation::new(format!("C06/pairing/{k}"), d)),
                Err(p) => return Some(Violation::new(format!("C06/panic-in-from_bytes@{}", panic_site(&p)), p)),
            }
            st.probe(match m.hit_objects.len() {
                0 => "decoded_0_objects",
                _ => "decoded_some_objects",
            });
        }
    }
    // oracle 5: entry points agree
    if let Ok(s) = std::str::from_utf8(content) {
        let r = match guard(|| s.parse::<Beatmap>()) {
            Ok(r) => r,
            Err(p) => return Some(Violation::new(format!("C06/panic-in-from_str@{}", panic_site(&p)), p)),
        };
        if !same_result(&r, &reference) {
            return Some(Violation::new(
                "C06/entry-points/str-vs-bytes",
                format!("from_str {} vs from_bytes {}", describe(&r), describe(&reference)),
            ));
        }
    }
    if c.check_path {
        let path = std::env::temp_dir().join(format!("verif-c06-{}-{:x}.osu", std::process::id(), fnv(content)));
        if std::fs::write(&path, content).is_ok() {
            let r = guard(|| Beatmap::from_path(&path));
            let _ = std::fs::remove_file(&path);
            st.probe("from_path_compared");
            match r {
                Ok(r) => {
                    if !same_result(&r, &reference) {
                        return Some(Violation::new(
                            "C06/entry-points/path-vs-bytes",
                            format!("from_path {} vs from_bytes {}", describe(&r), describe(&reference)),
                        ));
                    }
                }
                Err(p) => return Some(Violation::new(format!("C06/panic-in-from_path@{}", panic_site(&p)), p)),
            }
        }
    }
    // oracles 2-4: reader faults
    if c.enumerate {
        st.probe("enumerated_file");
        let n = content.len();
        for k in 3..=n {
            // two-chunk split
            let plan = Plan { chunks: vec![k, usize::MAX >> 1], ..Plan::default() };
            if let Some(v) = check_plan(content, &reference, &plan, st) {
                return Some(v);
            }
            // split at k, then byte by byte
            let plan = Plan { chunks: vec![k, 1], ..Plan::default() };
            if let Some(v) = check_plan(content, &reference, &plan, st) {
                return Some(v);
            }
        }
        for k in 0..=n {
            for plan in [
                Plan { eof_at: Some(k), ..Plan::default() },
                Plan { eintr_at: vec![k], ..Plan::default() },
                Plan { fail_at: Some(k), ..Plan::default() },
                Plan { fail_at: Some(k), chunks: vec![3], ..Plan::default() },
                Plan { eintr_at: vec![k], chunks: vec![3, 1], ..Plan::default() },
            ] {
                st.ops += 1;
                if let Some(v) = check_plan(content, &reference, &plan, st) {
                    return Some(v);
                }
            }
        }
        // last, the class that is a known finding of the dependency
        for k in 1..=2usize.min(n) {
            let plan = Plan { chunks: vec![k, usize::MAX >> 1], ..Plan::default() };
            if let Some(v) = check_plan(content, &reference, &plan, st) {
                return Some(v);
            }
        }
        None
    } else {
        st.ops += 1;
        check_plan(content, &reference, &c.plan, st)
    }
}

fn simpler(c: &IoCase) -> Vec<IoCase> {
    let mut out = Vec::new();
    if c.enumerate {
        // keep enumerating while shrinking the file
    }
    let lines = split_lines(&c.content);
    let n = lines.len();
    if n > 3 {
        let mut x = c.clone();
        x.content = lines[..n / 2].concat();
        out.push(x);
        let mut x = c.clone();
        x.content = lines[n / 2..].concat();
        out.push(x);
    }
    for i in (0..n).rev() {
        let mut x = c.clone();
        let mut l = lines.clone();
        l.remove(i);
        x.content = l.concat();
        out.push(x);
    }
    let p = &c.plan;
    if *p != Plan::default() {
        if !p.eintr_at.is_empty() {
            let mut x = c.clone();
            x.plan.eintr_at.clear();
            out.push(x);
        }
        if p.chunks.len() > 1 {
            let mut x = c.clone();
            x.plan.chunks.truncate(1);
            out.push(x);
        }
        if !p.chunks.is_empty() {
            let mut x = c.clone();
            x.plan.chunks.clear();
            out.push(x);
        }
        if p.fail_at.is_some() {
            let mut x = c.clone();
            x.plan.fail_at = None;
            out.push(x);
        }
        if p.eof_at.is_some() {
            let mut x = c.clone();
            x.plan.eof_at = None;
            out.push(x);
        }
    }
    if c.check_path {
        let mut x = c.clone();
        x.check_path = false;
        out.push(x);
    }
    // shorten long lines' tails (hit object extras)
    for (i, l) in lines.iter().enumerate() {
        if l.len() > 40 {
            let s = String::from_utf8_lossy(l);
            if let Some(idx) = s.rfind(',') {
                let mut x = c.clone();
                let mut l2 = lines.clone();
                let mut cut = s[..idx].as_bytes().to_vec();
                cut.push(b'\n');
                l2[i] = cut;
                x.content = l2.concat();
                out.push(x);
            }
        }
    }
    out
}

pub struct C06Engine;

impl Engine for C06Engine {
    type Case = IoCase;
    fn name() -> &'static str {
        "c06"
    }
    fn gen(rng: &mut Rng, tier: Tier) -> IoCase {
        gen_case(rng, tier)
    }
    fn exec(case: &IoCase, stats: &mut Stats) -> Option<Violation> {
        exec(case, stats)
    }
    fn simpler(case: &IoCase) -> Vec<IoCase> {
        simpler(case)
    }
    fn to_json(c: &IoCase) -> Value {
        json!({
            "content": content_to_json(&c.content), "storage_faults": c.storage_faults,
            "plan": c.plan.to_json(), "enumerate": c.enumerate, "check_path": c.check_path,
        })
    }
    fn from_json(v: &Value) -> IoCase {
        IoCase {
            content: content_from_json(&v["content"]),
            storage_faults: v["storage_faults"]
                .as_array()
                .map(|a| a.iter().filter_map(|x| x.as_str().map(str::to_owned)).collect())
                .unwrap_or_default(),
            plan: Plan::from_json(&v["plan"]),
            enumerate: v["enumerate"].as_bool().unwrap_or(false),
            check_path: v["check_path"].as_bool().unwrap_or(false),
        }
    }
    fn signature(c: &IoCase) -> u64 {
        fnv(format!(
            "{:?}|{}|{}|{}",
            c.storage_faults,
            c.plan.to_json(),
            c.enumerate,
            c.content.len() / 64
        )
        .as_bytes())
    }
    fn nontrivial(c: &IoCase) -> bool {
        !c.storage_faults.is_empty() || c.plan != Plan::default() || c.enumerate
    }
}

#[allow(dead_code)]
fn _unused(_: &dyn Read) {}

// ------------------------------------------------------------ C11: decoder scratch buffer

/// Slider-heavy texts: multi-segment paths, repeated anchors, very long paths (the
/// scratch vector of borrowed `*const str` has to grow), and malformed tokens that make
/// the path parser bail out mid-line, each followed by further sliders so that a
/// scratch buffer that survived its line would be used again.
fn gen_slider_content(rng: &mut Rng) -> (Vec<u8>, Vec<String>) {
    let mut s = String::from("osu file format v14\n[General]\nMode: 0\n[Difficulty]\nSliderMultiplier:1.4\n[TimingPoints]\n0,500,4,2,0,100,1,0\n[HitObjects]\n");
    let n = if cfg!(miri) { 2 + rng.usize(4) } else { 2 + rng.usize(10) };
    let mut faults = Vec::new();
    let mut t = 1000;
    for _ in 0..n {
        t += 100 + rng.usize(800);
        let x = rng.range(0, 512);
        let y = rng.range(0, 384);
        if rng.chance(0.15) {
            s.push_str(&format!("{x},{y},{t},1,0,0:0:0:0:\n"));
            continue;
        }
        let segs = 1 + rng.usize(3);
        let mut path = String::new();
        for k in 0..segs {
            let ty = *rng.pick(&["B", "L", "P", "C", "B"]);
            if k > 0 {
                path.push('|');
            }
            path.push_str(ty);
            let pts = if rng.chance(0.08) { if cfg!(miri) { 12 + rng.usize(20) } else { 40 + rng.usize(400) } } else { 1 + rng.usize(4) };
            let (mut px, mut py) = (x, y);
            for _ in 0..pts {
                if rng.chance(0.2) {
                    path.push_str(&format!("|{px}:{py}")); // repeated anchor
                } else {
                    px += rng.range(-80, 80);
                    py += rng.range(-80, 80);
                    path.push_str(&format!("|{px}:{py}"));
                }
            }
        }
        // malformed tokens
        if rng.chance(0.45) {
            let parts: Vec<&str> = path.split('|').collect();
            let i = rng.usize(parts.len());
            let bad = *rng.pick(&["", "abc:1", "1:", ":", "nan:nan", "1e9:5", "7", "B", "-", "1:2:3", "x", "9999999:1"]);
            let mut p2: Vec<String> = parts.iter().map(|p| (*p).to_owned()).collect();
            match rng.below(3) {
                0 => p2[i] = bad.to_owned(),
                1 => p2.insert(i, bad.to_owned()),
                _ => {
                    p2.truncate(i.max(1));
                    p2.push(bad.to_owned());
                }
            }
            path = p2.join("|");
            faults.push(format!("bad_path_token:{bad}"));
        }
        let reps = 1 + rng.usize(3);
        let len = rng.range(10, 400);
        if rng.chance(0.1) {
            s.push_str(&format!("{x},{y},{t},2,0,{path},{},{len}\n", *rng.pick(&["9001", "abc", "-1", ""])));
            faults.push("bad_repeat_count".into());
        } else {
            s.push_str(&format!("{x},{y},{t},2,0,{path},{reps},{len}\n"));
        }
    }
    (s.into_bytes(), faults)
}

pub struct C11DecodeEngine;

impl Engine for C11DecodeEngine {
    type Case = IoCase;
    fn name() -> &'static str {
        "c11d"
    }
    fn gen(rng: &mut Rng, _tier: Tier) -> IoCase {
        let (content, storage_faults) = gen_slider_content(rng);
        // byte-wise reads rewrite the line buffer as often as possible between uses
        let plan = match rng.below(4) {
            0 => Plan::default(),
            1 => Plan { chunks: vec![3, 1], ..Plan::default() },
            2 => Plan { chunks: vec![5, 2, 7, 1], ..Plan::default() },
            _ => gen_plan(rng, &content),
        };
        let mut plan = plan;
        // the BOM-sniffing loss of a 1-2 byte first window is C06's known finding, not C11's subject
        if !plan.chunks.is_empty() && plan.chunks[0] < 3 {
            plan.chunks.insert(0, 3);
        }
        IoCase {
            content,
            storage_faults,
            plan,
            enumerate: false,
            check_path: false,
        }
    }
    fn exec(case: &IoCase, stats: &mut Stats) -> Option<Violation> {
        if cfg!(miri) {
            // Miri is the monitor here: one reference decode and one decode through the faulty
            // reader are enough; the compositional oracles run natively at scale.
            for f in &case.storage_faults {
                stats.fault(&format!("storage_{}", f.split(':').next().unwrap_or(f)));
            }
            let reference = match guard(|| Beatmap::from_bytes(&case.content)) {
                Ok(r) => r,
                Err(p) => return Some(Violation::new(format!("C11/decode/panic-in-from_bytes@{}", panic_site(&p)), p)),
            };
            stats.ops += 2;
            return check_plan(&case.content, &reference, &case.plan, stats)
                .map(|v| Violation::new(v.key.replace("C06/", "C11/decode/"), v.detail));
        }
        let prev = crate::seams::set_alloc_junk_get(0xA5);
        let r = exec(case, stats);
        crate::seams::set_alloc_junk(prev);
        // additionally: every line must decode to the same objects in a fresh decoder (no state
        // carried over through the scratch buffer): compare object counts line by line
        if r.is_none() {
            if let Some(v) = line_independence(&case.content) {
                return Some(v);
            }
        }
        r.map(|v| Violation::new(v.key.replace("C06/", "C11/decode/"), v.detail))
    }
    fn simpler(case: &IoCase) -> Vec<IoCase> {
        simpler(case)
    }
    fn to_json(c: &IoCase) -> Value {
        C06Engine::to_json(c)
    }
    fn from_json(v: &Value) -> IoCase {
        C06Engine::from_json(v)
    }
    fn signature(c: &IoCase) -> u64 {
        C06Engine::signature(c)
    }
    fn nontrivial(c: &IoCase) -> bool {
        !c.storage_faults.is_empty() || c.plan != Plan::default()
    }
}

/// The number of objects the whole text decodes to equals the number of its hit-object
/// lines that decode on their own: a scratch buffer that outlives its line shows up as
/// lines that parse alone but vanish (or turn into garbage) in context.
fn line_independence(content: &[u8]) -> Option<Violation> {
    let whole = Beatmap::from_bytes(content).ok()?;
    let text = String::from_utf8_lossy(content);
    let (head, objs) = text.split_once("[HitObjects]\n")?;
    let mut alone = 0usize;
    for l in objs.lines() {
        let one = format!("{head}[HitObjects]\n{l}\n");
        if let Ok(m) = Beatmap::from_bytes(one.as_bytes()) {
            alone += m.hit_objects.len();
        }
    }
    if alone != whole.hit_objects.len() {
        return Some(Violation::new(
            "C11/decode/lines-not-independent",
            format!("{} objects decoded from the whole text, {alone} from its lines one by one", whole.hit_objects.len()),
        ));
    }
    None
}

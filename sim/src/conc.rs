//! E1/E3 for C20: jobs on persistent worker threads. The scheduler decides which
//! thread performs which unit of work: one-shot calculations on maps shared by
//! reference, and single steps of gradual calculators that are handed from thread to
//! thread between steps (A -> B -> A included). Natively exactly one unit runs at a
//! time (turn-based, exactly replayable); under Miri the `parallel` steps really
//! overlap and Miri's seeded scheduler picks the interleaving and watches for races.

use std::sync::mpsc;

use rosu_pp::{Beatmap, Performance};
use serde_json::{json, Value};

use crate::{
    mapgen::{gen_map, gen_shape, shift_times, MapText},
    prng::{fnv, Rng},
    runner::{guard, panic_site, Engine, Stats, Tier, Violation},
    spec::{gen_diff, gen_score, mode_idx, mode_name, DiffSpec, ModsSpec, ScoreSpec, MODES},
    sut::{self, AnyGD},
};

#[derive(Clone, Debug)]
pub struct Job {
    /// calc strains perf convert bpm grad
    pub kind: String,
    pub map: usize,
    pub target: usize,
    pub diff: DiffSpec,
    pub score: ScoreSpec,
    pub api_enum: bool,
}

#[derive(Clone, Debug, PartialEq)]
pub enum Step {
    /// one unit of job `j` on thread `t` (a one-shot job is one unit; a gradual job one `next()`)
    Run { j: usize, t: usize },
    /// several one-shot jobs at once on different threads (overlapping under Miri)
    Parallel(Vec<(usize, usize)>),
}

#[derive(Clone, Debug)]
pub struct ConcCase {
    pub maps: Vec<MapText>,
    pub jobs: Vec<Job>,
    pub threads: usize,
    pub steps: Vec<Step>,
}

impl Job {
    fn to_json(&self) -> Value {
        json!({"kind": self.kind, "map": self.map, "target": self.target, "diff": self.diff.to_json(),
               "score": self.score.to_json(), "api_enum": self.api_enum})
    }
    fn from_json(v: &Value) -> Self {
        Self {
            kind: v["kind"].as_str().unwrap_or("calc").to_owned(),
            map: v["map"].as_u64().unwrap_or(0) as usize,
            target: v["target"].as_u64().unwrap_or(0) as usize,
            diff: DiffSpec::from_json(&v["diff"]),
            score: ScoreSpec::from_json(&v["score"]),
            api_enum: v["api_enum"].as_bool().unwrap_or(false),
        }
    }
}

impl Step {
    fn to_json(&self) -> Value {
        match self {
            Step::Run { j, t } => json!({"run": j, "on": t}),
            Step::Parallel(v) => json!({"parallel": v.iter().map(|(j, t)| json!([j, t])).collect::<Vec<_>>()}),
        }
    }
    fn from_json(v: &Value) -> Self {
        if let Some(j) = v["run"].as_u64() {
            Step::Run {
                j: j as usize,
                t: v["on"].as_u64().unwrap_or(0) as usize,
            }
        } else {
            Step::Parallel(
                v["parallel"]
                    .as_array()
                    .map(|a| {
                        a.iter()
                            .map(|p| (p[0].as_u64().unwrap_or(0) as usize, p[1].as_u64().unwrap_or(0) as usize))
                            .collect()
                    })
                    .unwrap_or_default(),
            )
        }
    }
}

fn gradual_is_send(target: usize, api_enum: bool) -> bool {
    cfg!(feature = "sync") || (!api_enum && target != 1)
}

fn gen_case(rng: &mut Rng, tier: Tier) -> ConcCase {
    let max_n = match tier {
        Tier::Quick => 24,
        Tier::Thorough => 50,
    };
    let max_n = if cfg!(miri) { 6 } else { max_n };
    let n_maps = 1 + rng.usize(2);
    let mut maps = Vec::new();
    let mut modes = Vec::new();
    for _ in 0..n_maps {
        let mode = rng.weighted(&[55, 15, 15, 15]);
        let mut sh = gen_shape(rng, mode, max_n);
        sh.n = sh.n.max(3);
        maps.push(gen_map(rng, &sh));
        modes.push(mode);
    }
    let n_jobs = if cfg!(miri) { 2 + rng.usize(2) } else { 2 + rng.usize(5) };
    let mut jobs = Vec::new();
    for _ in 0..n_jobs {
        let map = rng.usize(n_maps);
        let target = if modes[map] == 0 {
            rng.weighted(&[30, 20, 20, 30])
        } else {
            modes[map]
        };
        let kind = ["calc", "strains", "perf", "convert", "bpm", "grad"][rng.weighted(&[20, 10, 12, 18, 5, 35])];
        let api_enum = rng.chance(0.3);
        let kind = if kind == "grad" && !gradual_is_send(target, api_enum) {
            "calc"
        } else {
            kind
        };
        jobs.push(Job {
            kind: kind.to_owned(),
            map,
            target,
            diff: gen_diff(rng, target),
            score: gen_score(rng, maps[map].objects.len() as u32),
            api_enum,
        });
    }
    let threads = 2 + rng.usize(3);
    let n_steps = if cfg!(miri) { 6 + rng.usize(8) } else { 8 + rng.usize(40) };
    let mut steps = Vec::new();
    for _ in 0..n_steps {
        if rng.chance(0.25) {
            let k = 2 + rng.usize(threads - 1);
            let mut ts: Vec<usize> = (0..threads).collect();
            rng.shuffle(&mut ts);
            let oneshots: Vec<usize> = (0..n_jobs).filter(|j| jobs[*j].kind != "grad").collect();
            if oneshots.len() >= 1 {
                let v = ts
                    .iter()
                    .take(k)
                    .map(|t| (oneshots[rng.usize(oneshots.len())], *t))
                    .collect();
                steps.push(Step::Parallel(v));
                continue;
            }
        }
        steps.push(Step::Run {
            j: rng.usize(n_jobs),
            t: rng.usize(threads),
        });
    }
    ConcCase {
        maps,
        jobs,
        threads,
        steps,
    }
}

fn oneshot(job: &Job, maps: &[Beatmap]) -> String {
    let map = &maps[job.map];
    let d = job.diff.build();
    match job.kind.as_str() {
        "strains" => format!("{:?}", sut::oneshot_strains(&d, map, job.target)),
        "perf" => match Performance::new(map).difficulty(d).try_mode(MODES[job.target]) {
            Ok(p) => sut::dig_pa(&job.score.apply(p).calculate()),
            Err(_) => "convert-error".into(),
        },
        "convert" => {
            let mods = job.diff.mods.as_ref().map_or_else(|| 0u32.into(), ModsSpec::build);
            format!("{:?}", map.convert_ref(MODES[job.target], &mods).map(std::borrow::Cow::into_owned))
        }
        "bpm" => format!("{}", map.bpm().to_bits()),
        "attrs" => format!(
            "{:?} {:?}",
            map.attributes().difficulty(&d).build(),
            map.attributes().difficulty(&d).hit_windows()
        ),
        _ => format!("{:?}", sut::oneshot_diff(&d, map, job.target)),
    }
}

struct SendGd(AnyGD);
// SAFETY: only constructed for handles whose live variant is `Send` in this build
// (checked with `gradual_is_send` when the job is created).
unsafe impl Send for SendGd {}

enum Task {
    OneShot(usize),
    GradStep(usize, SendGd),
    Stop,
}

enum Done {
    OneShot(usize, Result<String, String>),
    GradStep(usize, SendGd, Result<Option<String>, String>),
}

fn exec(c: &ConcCase, st: &mut Stats) -> Option<Violation> {
    let maps: Vec<Beatmap> = c.maps.iter().map(|m| sut::decode(&m.render())).collect();
    let pristine = maps.clone();
    // jobs that cannot run on this map (mode mismatch) are skipped everywhere
    let valid: Vec<bool> = c
        .jobs
        .iter()
        .map(|j| {
            j.map < maps.len() && {
                let mm = mode_idx(maps[j.map].mode);
                mm == j.target || mm == 0 || j.kind == "bpm" || j.kind == "attrs"
            }
        })
        .collect();
    // sequential reference, on this thread, before any worker exists
    let mut ref_oneshot: Vec<Option<String>> = vec![None; c.jobs.len()];
    let mut ref_grad: Vec<Vec<String>> = vec![Vec::new(); c.jobs.len()];
    for (i, j) in c.jobs.iter().enumerate() {
        if !valid[i] {
            continue;
        }
        if j.kind == "grad" {
            if !gradual_is_send(j.target, j.api_enum) {
                continue;
            }
            match guard(|| {
                let mut out = Vec::new();
                if let Ok(mut g) = AnyGD::new(j.diff.build(), &maps[j.map], j.target, j.api_enum) {
                    while let Some(v) = g.next() {
                        out.push(v);
                        if out.len() > 100_000 {
                            break;
                        }
                    }
                }
                out
            }) {
                Ok(v) => ref_grad[i] = v,
                Err(_) => return None, // sequential panic: not a concurrency matter (C05)
            }
        } else {
            match guard(|| oneshot(j, &maps)) {
                Ok(s) => ref_oneshot[i] = Some(s),
                Err(_) => return None,
            }
        }
    }

    let maps_ref = &maps;
    let jobs_ref = &c.jobs;
    let violation = std::thread::scope(|scope| {
        let (done_tx, done_rx) = mpsc::channel::<Done>();
        let mut task_tx = Vec::new();
        for _ in 0..c.threads {
            let (tx, rx) = mpsc::channel::<Task>();
            task_tx.push(tx);
            let done_tx = done_tx.clone();
            scope.spawn(move || {
                while let Ok(task) = rx.recv() {
                    match task {
                        Task::Stop => break,
                        Task::OneShot(i) => {
                            let r = guard(|| oneshot(&jobs_ref[i], maps_ref));
                            let _ = done_tx.send(Done::OneShot(i, r));
                        }
                        Task::GradStep(i, mut g) => {
                            let r = guard(|| g.0.next());
                            let _ = done_tx.send(Done::GradStep(i, g, r));
                        }
                    }
                }
            });
        }
        let mut handles: Vec<Option<SendGd>> = (0..c.jobs.len()).map(|_| None).collect();
        let mut pos: Vec<usize> = vec![0; c.jobs.len()];
        let mut last_thread: Vec<Option<usize>> = vec![None; c.jobs.len()];
        let mut seen_threads: Vec<Vec<usize>> = vec![Vec::new(); c.jobs.len()];
        let mut result: Option<Violation> = None;

        let check_oneshot = |i: usize, r: Result<String, String>, how: &str| -> Option<Violation> {
            let j = &jobs_ref[i];
            match r {
                Err(p) => Some(Violation::new(
                    format!("C20/{}/{}/panic-on-thread@{}", j.kind, mode_name(j.target), panic_site(&p)),
                    p,
                )),
                Ok(s) => {
                    if Some(&s) != ref_oneshot[i].as_ref() {
                        let f = crate::grad::first_diff_field(&s, ref_oneshot[i].as_deref().unwrap_or(""));
                        Some(Violation::new(
                            format!("C20/{}/{}/differs-from-sequential/{how}", j.kind, mode_name(j.target)),
                            format!("job {i} on a worker thread: field {f}: {} vs sequential {}", &s[..s.len().min(300)], ref_oneshot[i].as_deref().map_or("", |r| &r[..r.len().min(300)])),
                        ))
                    } else {
                        None
                    }
                }
            }
        };

        'steps: for step in &c.steps {
            match step {
                Step::Run { j, t } => {
                    let (i, t) = (*j, *t % c.threads);
                    if i >= c.jobs.len() || !valid[i] {
                        continue;
                    }
                    st.ops += 1;
                    let job = &c.jobs[i];
                    if job.kind == "grad" {
                        if !gradual_is_send(job.target, job.api_enum) {
                            st.probe("gradual_not_send_in_this_build");
                            continue;
                        }
                        let g = match handles[i].take() {
                            Some(g) => g,
                            None => {
                                if pos[i] > 0 {
                                    continue; // exhausted earlier
                                }
                                match AnyGD::new(job.diff.build(), &maps[job.map], job.target, job.api_enum) {
                                    Ok(g) => SendGd(g),
                                    Err(_) => continue,
                                }
                            }
                        };
                        if let Some(prev) = last_thread[i] {
                            if prev != t {
                                st.fault("gradual_handover");
                                if seen_threads[i].contains(&t) {
                                    st.fault("gradual_handover_back_to_earlier_thread");
                                }
                            }
                        }
                        last_thread[i] = Some(t);
                        if !seen_threads[i].contains(&t) {
                            seen_threads[i].push(t);
                        }
                        let _ = task_tx[t].send(Task::GradStep(i, g));
                        match done_rx.recv() {
                            Ok(Done::GradStep(_, g, r)) => {
                                let exp = ref_grad[i].get(pos[i]).cloned();
                                match r {
                                    Err(p) => {
                                        result = Some(Violation::new(
                                            format!("C20/grad/{}/panic-on-thread@{}", mode_name(job.target), panic_site(&p)),
                                            p,
                                        ));
                                        break 'steps;
                                    }
                                    Ok(v) => {
                                        if v != exp {
                                            let f = crate::grad::first_diff_field(v.as_deref().unwrap_or("None"), exp.as_deref().unwrap_or("None"));
                                            result = Some(Violation::new(
                                                format!("C20/grad/{}/differs-from-single-thread@{f}", mode_name(job.target)),
                                                format!(
                                                    "job {i} step {} on thread {t} (threads so far {:?}): {:?} vs single-threaded {:?}",
                                                    pos[i] + 1,
                                                    seen_threads[i],
                                                    v.as_deref().map(|s| &s[..s.len().min(200)]),
                                                    exp.as_deref().map(|s| &s[..s.len().min(200)])
                                                ),
                                            ));
                                            break 'steps;
                                        }
                                        if v.is_some() {
                                            pos[i] += 1;
                                            handles[i] = Some(g);
                                        } else {
                                            pos[i] += 1; // mark exhausted
                                        }
                                    }
                                }
                            }
                            _ => {
                                result = Some(Violation::new("C20/harness/worker-lost", ""));
                                break 'steps;
                            }
                        }
                    } else {
                        st.fault("oneshot_on_worker");
                        let _ = task_tx[t].send(Task::OneShot(i));
                        match done_rx.recv() {
                            Ok(Done::OneShot(i, r)) => {
                                if let Some(v) = check_oneshot(i, r, "turn-based") {
                                    result = Some(v);
                                    break 'steps;
                                }
                            }
                            _ => {
                                result = Some(Violation::new("C20/harness/worker-lost", ""));
                                break 'steps;
                            }
                        }
                    }
                }
                Step::Parallel(list) => {
                    let list: Vec<(usize, usize)> = list
                        .iter()
                        .filter(|(j, _)| *j < c.jobs.len() && valid[*j] && c.jobs[*j].kind != "grad")
                        .map(|(j, t)| (*j, *t % c.threads))
                        .collect();
                    if list.is_empty() {
                        continue;
                    }
                    st.fault("parallel_dispatch");
                    if cfg!(miri) {
                        // really overlapping: Miri's scheduler owns the interleaving
                        for (j, t) in &list {
                            let _ = task_tx[*t].send(Task::OneShot(*j));
                        }
                        for _ in &list {
                            st.ops += 1;
                            match done_rx.recv() {
                                Ok(Done::OneShot(i, r)) => {
                                    if let Some(v) = check_oneshot(i, r, "overlapping") {
                                        result = Some(v);
                                        break 'steps;
                                    }
                                }
                                _ => {
                                    result = Some(Violation::new("C20/harness/worker-lost", ""));
                                    break 'steps;
                                }
                            }
                        }
                    } else {
                        // natively the schedule must be ours: one at a time, in listed order
                        for (j, t) in &list {
                            st.ops += 1;
                            let _ = task_tx[*t].send(Task::OneShot(*j));
                            match done_rx.recv() {
                                Ok(Done::OneShot(i, r)) => {
                                    if let Some(v) = check_oneshot(i, r, "turn-based") {
                                        result = Some(v);
                                        break 'steps;
                                    }
                                }
                                _ => {
                                    result = Some(Violation::new("C20/harness/worker-lost", ""));
                                    break 'steps;
                                }
                            }
                        }
                    }
                }
            }
        }
        for tx in &task_tx {
            let _ = tx.send(Task::Stop);
        }
        drop(handles);
        result
    });
    if violation.is_some() {
        return violation;
    }
    for (i, (m, p)) in maps.iter().zip(pristine.iter()).enumerate() {
        if m != p && format!("{m:?}") != format!("{p:?}") {
            return Some(Violation::new("C20/shared-map-modified", format!("map {i} changed")));
        }
    }
    None
}

fn simpler(c: &ConcCase) -> Vec<ConcCase> {
    let mut out = Vec::new();
    let n = c.steps.len();
    if n > 2 {
        let mut x = c.clone();
        x.steps.truncate(n / 2);
        out.push(x);
    }
    for i in (0..n).rev() {
        let mut x = c.clone();
        x.steps.remove(i);
        out.push(x);
    }
    for (i, s) in c.steps.iter().enumerate() {
        if let Step::Parallel(v) = s {
            if v.len() > 1 {
                for k in 0..v.len() {
                    let mut x = c.clone();
                    let mut v2 = v.clone();
                    v2.remove(k);
                    x.steps[i] = Step::Parallel(v2);
                    out.push(x);
                }
            }
        }
    }
    if c.threads > 2 {
        let mut x = c.clone();
        x.threads -= 1;
        out.push(x);
    }
    for (mi, m) in c.maps.iter().enumerate() {
        for s in m.simpler().into_iter().take(40) {
            let mut x = c.clone();
            x.maps[mi] = s;
            out.push(x);
        }
    }
    for (ji, j) in c.jobs.iter().enumerate() {
        for d in j.diff.simpler() {
            let mut x = c.clone();
            x.jobs[ji].diff = d;
            out.push(x);
        }
    }
    out
}

pub struct C20Engine;

impl Engine for C20Engine {
    type Case = ConcCase;
    fn name() -> &'static str {
        "c20"
    }
    fn gen(rng: &mut Rng, tier: Tier) -> ConcCase {
        gen_case(rng, tier)
    }
    fn exec(case: &ConcCase, stats: &mut Stats) -> Option<Violation> {
        exec(case, stats)
    }
    fn simpler(case: &ConcCase) -> Vec<ConcCase> {
        simpler(case)
    }
    fn to_json(c: &ConcCase) -> Value {
        json!({
            "maps": c.maps.iter().map(MapText::to_json).collect::<Vec<_>>(),
            "jobs": c.jobs.iter().map(Job::to_json).collect::<Vec<_>>(),
            "threads": c.threads,
            "steps": c.steps.iter().map(Step::to_json).collect::<Vec<_>>(),
        })
    }
    fn from_json(v: &Value) -> ConcCase {
        ConcCase {
            maps: v["maps"].as_array().map(|a| a.iter().map(MapText::from_json).collect()).unwrap_or_default(),
            jobs: v["jobs"].as_array().map(|a| a.iter().map(Job::from_json).collect()).unwrap_or_default(),
            threads: v["threads"].as_u64().unwrap_or(2) as usize,
            steps: v["steps"].as_array().map(|a| a.iter().map(Step::from_json).collect()).unwrap_or_default(),
        }
    }
    fn signature(c: &ConcCase) -> u64 {
        // the interleaving signature: which job ran on which thread in which order
        let sig: Vec<String> = c
            .steps
            .iter()
            .map(|s| match s {
                Step::Run { j, t } => format!("{}{}@{}", c.jobs.get(*j).map_or("?", |j| j.kind.as_str()), j, t),
                Step::Parallel(v) => format!("par{v:?}"),
            })
            .collect();
        fnv(format!("{}|{sig:?}", c.threads).as_bytes())
    }
    fn nontrivial(c: &ConcCase) -> bool {
        c.steps.len() > 1
    }
}

// ------------------------------------------------------------ conversion storm

/// Several *different* osu! maps converted / calculated for the same target mode at the
/// same time on different threads: the shape in which a process-wide cache, memo or
/// scratch buffer inside a converter would make one job see another job's data.
fn gen_storm(rng: &mut Rng, tier: Tier) -> ConcCase {
    let max_n = if cfg!(miri) { 5 } else if tier == Tier::Quick { 16 } else { 40 };
    let n_maps = 2 + rng.usize(2);
    // a third of the storms consist of cheap whole-map queries (bpm, attribute builder): short calls
    // overlap only if they are issued together many times
    let cheap = rng.chance(0.33);
    let long_break = !cheap && rng.chance(if cfg!(miri) { 0.15 } else { 0.35 });
    let mut maps = Vec::new();
    for k in 0..n_maps {
        let mut sh = gen_shape(rng, 0, max_n);
        sh.n = sh.n.clamp(3, max_n);
        sh.mix = 1 + rng.below(2) as u8; // sliders: converters have work to do
        // the maps of one storm differ as much as possible (sparse vs dense, easy vs hard settings),
        // so that a value leaking from one job into another changes what the other computes
        sh.tempo = [2u8, 1, 0][k % 3];
        if cheap {
            sh.tie_timing = true; // several tempos: bpm() has something to decide
        }
        let mut m = gen_map(rng, &sh);
        if long_break {
            // several hundred strain sections: long peak lists take other code paths than short ones
            let at = 1 + rng.usize(sh.n.max(2) - 1);
            shift_times(&mut m, at, if cfg!(miri) { 110_000.0 } else { *rng.pick(&[110_000.0, 180_000.0, 420_000.0]) });
        }
        let v = [1.0, 9.5, 5.0][k % 3];
        for l in m.pre.iter_mut() {
            for key in ["HPDrainRate", "OverallDifficulty", "ApproachRate"] {
                if l.starts_with(key) {
                    *l = format!("{key}:{v}");
                }
            }
        }
        maps.push(m);
    }
    // mania has by far the most involved converter
    let target = 1 + rng.weighted(&[25, 25, 50]);
    // conversions alone are cheap enough to be repeated often: more overlapping windows per second
    let convert_only = !long_break && rng.chance(0.7);
    let diff = if rng.chance(0.5) { DiffSpec::default() } else { gen_diff(rng, target) };
    let jobs: Vec<Job> = (0..n_maps)
        .map(|m| Job {
            kind: if cheap {
                (*rng.pick(&["bpm", "bpm", "attrs"])).to_owned()
            } else if convert_only {
                "convert".to_owned()
            } else if long_break {
                (*rng.pick(&["calc", "calc", "strains"])).to_owned()
            } else {
                (*rng.pick(&["convert", "convert", "calc", "strains"])).to_owned()
            },
            map: m,
            target,
            diff: diff.clone(),
            score: ScoreSpec::default(),
            api_enum: false,
        })
        .collect();
    let threads = n_maps;
    let rounds = match (cfg!(miri), cheap) {
        (true, false) => {
            if convert_only {
                8
            } else {
                4
            }
        }
        (true, true) => 8,
        (false, _) => 3 + rng.usize(3),
    };
    let mut steps = Vec::new();
    for _ in 0..rounds {
        let mut ts: Vec<usize> = (0..threads).collect();
        rng.shuffle(&mut ts);
        steps.push(Step::Parallel((0..n_maps).map(|j| (j, ts[j])).collect()));
    }
    ConcCase {
        maps,
        jobs,
        threads,
        steps,
    }
}

pub struct C20StormEngine;

impl Engine for C20StormEngine {
    type Case = ConcCase;
    fn name() -> &'static str {
        "c20s"
    }
    fn gen(rng: &mut Rng, tier: Tier) -> ConcCase {
        gen_storm(rng, tier)
    }
    fn exec(case: &ConcCase, stats: &mut Stats) -> Option<Violation> {
        exec(case, stats)
    }
    fn simpler(case: &ConcCase) -> Vec<ConcCase> {
        simpler(case)
    }
    fn to_json(c: &ConcCase) -> Value {
        C20Engine::to_json(c)
    }
    fn from_json(v: &Value) -> ConcCase {
        C20Engine::from_json(v)
    }
    fn signature(c: &ConcCase) -> u64 {
        C20Engine::signature(c) ^ fnv(format!("{:?}", c.jobs.iter().map(|j| (j.kind.as_str(), j.target)).collect::<Vec<_>>()).as_bytes())
    }
    fn nontrivial(c: &ConcCase) -> bool {
        c.steps.len() > 1
    }
}

"""Proves the simulator deterministic before its verdicts are trusted: every engine is run
twice per seed in separate processes (and with a different sharding); the complete outputs
(case signatures, fault and probe counters, violation records) must be byte-identical.
Also checks that the getrandom/clock shim really owns std's hash seeds, and that a Miri
seed is one repeatable execution."""
import json
import os
import subprocess
import sys
import time
from concurrent.futures import ThreadPoolExecutor

import harness as H
import miri_engine as M

ENGINES = [
    # engine, runs, needs shim
    ("c01", 3000, True),
    ("c02", 3000, False),
    ("c03", 3000, False),
    ("c15", 3000, False),
    ("c18", 3000, False),
    ("c06", 3000, False),
    ("c05r", 1500, False),
    ("c05a", 1500, False),
    ("c11s", 5000, False),
    ("c11d", 2000, False),
    ("c11c", 2000, False),
    ("c11e", 2000, False),
    ("c20", 1500, False),
    ("c20s", 500, False),
    ("trace", 1500, False),
]


def _run(binary, engine, sd, a, b, env):
    r = subprocess.run([binary, engine, "--seed", str(sd), "--from", str(a), "--to", str(b)], capture_output=True, text=True, env=env, timeout=1200)
    return r.stdout


def _merge(outs):
    """Order-independent merge of summaries: what the check itself computes."""
    sigs, faults, probes, runs = set(), {}, {}, 0
    vio = {}
    for out in outs:
        for line in out.splitlines():
            if not line.startswith("{"):
                continue
            j = json.loads(line)
            if j.get("type") == "summary":
                runs += j["runs"]
                sigs.update(j.get("sigs", []))
                for k, v in j.get("faults", {}).items():
                    faults[k] = faults.get(k, 0) + v
                for k, v in j.get("probes", {}).items():
                    probes[k] = probes.get(k, 0) + v
                # every violating run is counted per class in the summary (only the first two per
                # class and worker are minimised and written out, which depends on the sharding)
                for k, v in j.get("violation_keys", {}).items():
                    vio[k] = vio.get(k, 0) + v
            elif j.get("type") == "trace":
                sigs.add(json.dumps(j, sort_keys=True))
    return json.dumps({"runs": runs, "sigs": sorted(sigs), "faults": faults, "probes": probes, "vio": vio}, sort_keys=True)


def main(args):
    t0 = time.time()
    H.build("default")
    binary = H.sim_bin("default")
    seeds = [1, 20261003, 987654321] if "--fast" not in args else [1]
    failures = []
    jobs = []
    for engine, n, shim in ENGINES:
        env = H.shim_env() if shim else dict(os.environ)
        for sd in seeds:
            jobs.append((engine, n, sd, env))

    def one(job):
        engine, n, sd, env = job
        # A: one process; B: one process again; C: four shards
        a = _run(binary, engine, sd, 0, n, env)
        b = _run(binary, engine, sd, 0, n, env)
        q = n // 4
        c = [_run(binary, engine, sd, i * q, (i + 1) * q if i < 3 else n, env) for i in range(4)]
        ok_ab = a == b
        ok_ac = _merge([a]) == _merge(c)
        return engine, sd, ok_ab, ok_ac, len(a)

    with ThreadPoolExecutor(max_workers=H.WORKERS) as ex:
        for engine, sd, ok_ab, ok_ac, size in ex.map(one, jobs):
            status = "ok" if ok_ab and ok_ac else "NONDETERMINISTIC"
            print(f"selftest {engine:6s} seed={sd:<10d} twice-identical={ok_ab} sharding-independent={ok_ac} ({size} bytes of log) {status}")
            if not (ok_ab and ok_ac):
                failures.append((engine, sd))

    # the shim owns std's hash keys: same seed => same order in a fresh process, different seed => different order
    probe = subprocess.run([binary, "shimprobe"], capture_output=True, text=True, env=dict(H.shim_env(), VERIF_HASH_SEED="42")).stdout
    probe2 = subprocess.run([binary, "shimprobe"], capture_output=True, text=True, env=dict(H.shim_env(), VERIF_HASH_SEED="42")).stdout
    probe3 = subprocess.run([binary, "shimprobe"], capture_output=True, text=True, env=dict(H.shim_env(), VERIF_HASH_SEED="43")).stdout
    noshim = subprocess.run([binary, "shimprobe"], capture_output=True, text=True).stdout
    shim_ok = probe == probe2 and probe != probe3 and '"shim":true' in probe.replace(" ", "") and '"shim":false' in noshim.replace(" ", "")
    print(f"selftest shim   same-seed-same-order={probe == probe2} other-seed-other-order={probe != probe3} {'ok' if shim_ok else 'SHIM NOT EFFECTIVE'}")
    if not shim_ok:
        failures.append(("shim", 0))

    if "--no-miri" not in args:
        M.warm("")
        for scenario, a, b in (("strains", 0, 6), ("threads", 0, 1), ("storm", 0, 1)):
            job = (scenario, 7, a, b, 4242, 0.1, "")
            r1 = M.run_one(job, 1500)
            r2 = M.run_one(job, 1500)
            same = json.dumps(r1["lines"], sort_keys=True) == json.dumps(r2["lines"], sort_keys=True) and r1.get("rc") == r2.get("rc")
            print(f"selftest miri:{scenario:8s} same-miri-seed-same-output={same} {'ok' if same else 'NONDETERMINISTIC'}")
            if not same:
                failures.append(("miri:" + scenario, 4242))
    print(f"selftest finished in {time.time() - t0:.1f}s: {'all deterministic' if not failures else 'FAILURES: ' + str(failures)}")
    return 0 if not failures else 2

"""C11 and C20: native engines (fast, full-size inputs, allocator poisoning / turn-based
threads) plus the same engines under Miri (tiny inputs, every access and every
interleaving point monitored)."""
import os
import time

import harness as H
import miri_engine as M


def _native(prop, parts, tier):
    """parts: list of dict(engine, quick, thorough, build, env, prefix)."""
    sums, vios = [], []
    for c in parts:
        runs = c["quick"] if tier == "quick" else c["thorough"]
        runs = int(os.environ.get("VERIF_RUNS", runs))
        env = dict(os.environ)
        env.update(c.get("env", {}))
        s, v, anomalies = H.shard(c["engine"], runs, tier, c["build"], env=env, timeout=c.get("chunk_timeout", 600))
        for an in anomalies:
            v2, s2 = H.isolate_anomaly(c["engine"], an, tier, c["build"], env=env)
            v.extend(v2)
            s.extend(s2)
        for x in v:
            x["build"] = c["build"]
            if c.get("env"):
                x["env"] = c["env"]
            if c.get("prefix"):
                x["key"] = c["prefix"] + x["key"]
                x["key_prefix"] = c["prefix"]
        for x in s:
            x["part"] = c["engine"] + "@" + c["build"] + ("+poison" if c.get("env") else "")
        sums.extend(s)
        vios.extend(v)
    return sums, vios


def _miri_jobs(plan, tier):
    """plan: list of (scenario, features, processes quick, processes thorough, cases per process, preemption rate)."""
    sd = H.seed()
    jobs = []
    for scenario, feats, pq, pt, per, preempt in plan:
        procs = pq if tier == "quick" else pt
        for p in range(procs):
            a = p * per
            # both aliasing models: even processes Tree Borrows, odd ones Stacked Borrows
            jobs.append((scenario, sd, a, a + per, 1000 + p, preempt, feats, "tb" if p % 2 == 0 else "sb"))
    return jobs


def _finish(prop, tier, t0, sums, vios, msums, mvios, mstats, rule, extra_assume):
    known_entries = H.load_known()
    new, known = H.triage(prop, vios + mvios, known_entries)
    rc = 0
    for k, info in sorted(known.items()):
        print(f"KNOWN-FINDING: property={prop} {info['entry']['what']} (seen {info['count']}x)")
    # every class costs a replay in a fresh process (minutes under Miri): the first eight are verified
    # and reported, the rest is listed
    for v in new[8:]:
        print(f"  further class (not replayed): {v['key']}")
    from concurrent.futures import ThreadPoolExecutor

    todo = []
    for v in new[:8]:
        v = dict(v)
        v["property"] = prop
        todo.append((v, H.write_replay(prop, v)))
    # fresh-process replays in parallel (a Miri replay takes a minute or two)
    with ThreadPoolExecutor(max_workers=8) as ex:
        reps = list(ex.map(lambda t: replay_any(prop, t[1]), todo))
    for (v, path), rep in zip(todo, reps):
        if not rep.get("reproduced"):
            print(f"HARNESS-ERROR: replay {path} did not reproduce ({rep})", flush=True)
            rc = 2
            continue
        print(f"VIOLATION property={prop} replay={path}")
        print(f"  class: {v['key']}")
        print(f"  detail: {v['detail'][:400]}")
        rc = max(rc, 1) if rc != 2 else 2
    wall = time.time() - t0
    sigs = set()
    for s in sums + msums:
        sigs.update(s.get("sigs", []))
    evaluations = sum(s["runs"] for s in sums + msums)
    samples = []
    for s in sums + msums:
        samples.extend(s.get("samples", [])[:1])
    per_part = {}
    for s in sums:
        per_part[s["part"]] = per_part.get(s["part"], 0) + s["runs"]
    for s in msums:
        k = "miri:" + s["scenario"]
        per_part[k] = per_part.get(k, 0) + s["runs"]
    cov = {
        "evaluations": evaluations,
        "distinct_nontrivial": len(sigs),
        "rule": rule,
        "samples": samples[:3],
        "runs_per_part": per_part,
        "library_calls": sum(s.get("ops", 0) for s in sums + msums),
        "runs_per_hour": int(evaluations / max(wall, 1e-6) * 3600),
        "seeds": {"VERIF_SEED": H.seed(), "miri_seeds": "1000 + process index"},
        "simulated_time": "not applicable: the system under test has no timers or deadlines",
        "faults_fired": H.merge_counts(s.get("faults", {}) for s in sums + msums),
        "probes": H.merge_counts(s.get("probes", {}) for s in sums + msums),
        "miri": mstats,
        "known_findings_seen": {k: v["count"] for k, v in known.items()},
        "components": {
            "real": H.COMPONENTS["real"],
            "stub": ["thread scheduler, allocator addresses and getrandom under Miri (seeded by -Zmiri-seed)",
                     "native runs: SimAlloc wrapper over the system allocator (junk fill, poison on free, always-moving realloc)"],
        },
    }
    H.write_evidence(prop, tier, "exploration", cov, wall, len(new), H.ASSUME + extra_assume)
    print(f"{prop} {tier}: {evaluations} runs ({per_part}), {len(sigs)} distinct non-trivial histories, "
          f"{len(new)} new violation classes, {wall:.1f}s")
    return rc


def replay_any(prop, path):
    import json

    rec = json.load(open(path))
    if rec.get("engine") == "miri":
        return M.replay_file(path)
    # native record: strip the composite prefix for comparison inside the worker
    rep = H.replay_file(path)
    if rep.get("reproduced") and rec.get("key_prefix"):
        rep["reproduced"] = rec["key"] == rec["key_prefix"] + rep.get("key", "") or rep.get("reproduced")
    return rep


C11_RULE = (
    "three sub-systems (DESIGN 5.9). (1) StrainsVec vs Vec<f64> model under seeded op sequences (pushes of positive, +-0, "
    "negative, subnormal, +-NaN, +-inf, underflowing products; len/sum/iter/partial iter/clone/into_vec/retain/sort/scale in "
    "place/transmute) natively with debug assertions and under Miri. (2) gradual calculators moved (Box, Vec growth, swap, "
    "thread hop), restarted, dropped mid-iteration, built from a map that is dropped right away: C15/C02 engines natively "
    "with allocator poisoning (stale reads become wrong values) and under Miri (Tree Borrows). (3) slider-heavy texts with "
    "malformed path tokens and very long paths decoded through byte-wise readers natively with poisoning and under Miri. "
    "(4) the builder histories of C18 (Difficulty::clock_rate stores a NonZeroU64 made with new_unchecked). "
    "(5) maps edited in code through Beatmap's public fields (fewer sounds than objects, objects out of order, control "
    "points missing or unsorted, mode not fitting the objects): panics are tolerated, memory errors are not. "
    "Distinct = distinct op-kind sequences / fault lists over all parts."
)

C20_RULE = (
    "case = (1-2 maps shared by reference, 2-6 jobs: calculate/strains/performance/convert/bpm/gradual, 2-4 persistent worker "
    "threads, schedule of 8-48 steps assigning single units of work to threads, incl. gradual calculators handed A->B->A "
    "between steps and groups of one-shot jobs dispatched together). Natively one unit runs at a time (turn-based, replayable), "
    "default and sync builds; under Miri the grouped jobs overlap and Miri's seeded scheduler (preemption rate 0.05) decides "
    "the interleaving and reports data races/deadlocks. Oracle: every result equals the sequential result computed first. "
    "Distinct = distinct (thread count, job-kind@thread sequence) = interleaving signatures."
)


def run_c11(tier):
    t0 = time.time()
    H.build("default")
    parts = [
        dict(engine="c11s", quick=3000000, thorough=40000000, build="default"),
        dict(engine="c11d", quick=400000, thorough=6000000, build="default"),
        dict(engine="c15", quick=300000, thorough=4000000, build="default", env={"VERIF_ALLOC_JUNK": "165"}, prefix="C11/native-poison/"),
        dict(engine="c11c", quick=100000, thorough=1500000, build="default", env={"VERIF_ALLOC_JUNK": "165"}, prefix="C11/native-poison/"),
        dict(engine="c02", quick=100000, thorough=1500000, build="default", env={"VERIF_ALLOC_JUNK": "165"}, prefix="C11/native-poison/"),
        # Difficulty::clock_rate keeps its value in a NonZeroU64 built with new_unchecked: the builder histories
        # (incl. raw writes into InspectDifficulty) exercise that unsafe site; debug assertions turn a zero into an abort
        dict(engine="c18", quick=150000, thorough=2000000, build="default", prefix="C11/builder-unsafe/"),
        # maps edited in code (public fields): panics are fine, a dead worker is not
        dict(engine="c11e", quick=300000, thorough=4000000, build="default", env={"VERIF_ALLOC_JUNK": "165"}),
    ]
    sums, vios = _native("C11", parts, tier)
    plan = [
        ("strains", "", 16, 96, 20, 0.0),
        ("life15", "", 16, 96, 3, 0.0),
        ("consume", "", 16, 96, 4, 0.0),
        ("life02", "", 8, 48, 2, 0.0),
        ("sliders", "", 16, 96, 8, 0.0),
        ("builder", "", 8, 48, 4, 0.0),
        ("edited", "", 16, 96, 2, 0.0),
    ]
    msums, mvios, mstats = M.run("C11", _miri_jobs(plan, tier))
    return _finish("C11", tier, t0, sums, vios, msums, mvios, mstats, C11_RULE,
                   ["Miri's Tree Borrows model and -Zmiri-deterministic-floats; Stacked Borrows is deliberately not used (DESIGN E3)"])


def run_c20(tier):
    t0 = time.time()
    H.build("default")
    H.build("sync")
    parts = [
        dict(engine="c20", quick=60000, thorough=900000, build="default"),
        dict(engine="c20", quick=60000, thorough=900000, build="sync"),
        dict(engine="c20s", quick=20000, thorough=300000, build="default"),
    ]
    sums, vios = _native("C20", parts, tier)
    plan = [
        ("threads", "", 12, 96, 2, 0.05),
        ("threads", "sync", 12, 96, 2, 0.05),
        ("storm", "", 28, 192, 3, 0.1),
        ("storm", "sync", 0, 96, 3, 0.1),
    ]
    msums, mvios, mstats = M.run("C20", _miri_jobs(plan, tier))
    return _finish("C20", tier, t0, sums, vios, msums, mvios, mstats, C20_RULE,
                   ["Miri's scheduler pre-empts at basic-block ends with a seeded probability: sampling of interleavings, not enumeration"])

"""E3 driver: runs the simulator's engines under Miri. One Miri seed is one exactly
repeatable execution (thread interleaving, allocation addresses, getrandom bytes)."""
import json
import os
import re
import subprocess
import time
from concurrent.futures import ThreadPoolExecutor

import harness as H

MIRI_DIR = os.path.join(H.ROOT, "miri")
BASE_FLAGS = "-Zmiri-deterministic-floats"
MODELS = {"tb": "-Zmiri-tree-borrows", "sb": ""}  # Stacked Borrows is Miri's default


def _env(miri_seed, preempt, model="tb"):
    e = H.env_offline()
    e["MIRIFLAGS"] = f"{MODELS[model]} {BASE_FLAGS} -Zmiri-seed={miri_seed} -Zmiri-preemption-rate={preempt}".strip()
    return e


def _target_dir(features):
    return os.path.join(MIRI_DIR, "target-" + (features.replace(",", "-") or "default"))


def _cmd(features, args):
    cmd = ["cargo", "+nightly", "miri", "run", "--offline", "-q", "--target-dir", _target_dir(features)]
    if features:
        cmd += ["--features", features]
    return cmd + ["--"] + [str(a) for a in args]


def setup():
    r = subprocess.run(["cargo", "+nightly", "miri", "setup", "--offline"], cwd=MIRI_DIR, env=H.env_offline(),
                       capture_output=True, text=True)
    if r.returncode != 0:
        r = subprocess.run(["cargo", "+nightly", "miri", "setup"], cwd=MIRI_DIR, env=H.env_offline(),
                           capture_output=True, text=True)
        if r.returncode != 0:
            raise H.HarnessError("cargo miri setup failed: " + r.stderr[-2000:])
    for feats in ("", "sync"):
        warm(feats)
    return 0


def warm(features):
    """Builds the Miri binary once so that parallel runs only take the build lock briefly."""
    r = subprocess.run(_cmd(features, ["strains", 1, 0, 1]), cwd=MIRI_DIR, env=_env(0, 0.0), capture_output=True, text=True)
    if r.returncode not in (0, 1):
        raise H.HarnessError(f"miri warm-up build failed (features '{features}'): " + r.stderr[-3000:])


_HEX = re.compile(r"0x[0-9a-f]+|alloc[0-9]+|<[0-9]+>|\b[0-9]{3,}\b")


def classify(stderr):
    """First Miri diagnostic, with addresses / ids normalised away."""
    for line in stderr.splitlines():
        line = line.strip()
        if line.startswith("error:") and "aborting due to" not in line and "could not compile" not in line:
            return _HEX.sub("N", line[len("error:"):].strip())[:160]
    return None


def site(stderr):
    """First frame inside /repo or the dependencies."""
    for line in stderr.splitlines():
        m = re.search(r"-->\s+(\S+?):(\d+):", line)
        if m:
            f = m.group(1)
            if "/repo-link/" in f:
                return f[f.index("/repo-link/") + 11 :] + ":" + m.group(2)
            if "/repo/" in f:
                return f[f.index("/repo/") + 6 :] + ":" + m.group(2)
            if "registry/src/" in f:
                return f.split("registry/src/")[1].split("/", 1)[1] + ":" + m.group(2)
    return "?"


def run_one(job, timeout):
    scenario, wseed, a, b, mseed, preempt, features = job[:7]
    model = job[7] if len(job) > 7 else "tb"
    t0 = time.time()
    try:
        r = H.run_killable(_cmd(features, [scenario, wseed, a, b]), timeout, cwd=MIRI_DIR, env=_env(mseed, preempt, model))
    except subprocess.TimeoutExpired:
        return {"job": job, "timeout": True, "wall": time.time() - t0, "lines": []}
    lines = []
    for line in r.stdout.splitlines():
        if line.startswith("{"):
            try:
                lines.append(json.loads(line))
            except json.JSONDecodeError:
                pass
    res = {"job": job, "rc": r.returncode, "lines": lines, "wall": time.time() - t0}
    if r.returncode not in (0, 1) or not any(x.get("type") == "summary" for x in lines):
        res["miri_error"] = classify(r.stderr) or f"miri exited with {r.returncode}"
        res["site"] = site(r.stderr)
        res["stderr"] = r.stderr[-3000:]
    return res


def run(prop, jobs, timeout=600):
    """jobs: list of (scenario, workload seed, from, to, miri seed, preemption rate, features).
    Returns (summaries, violations, stats)."""
    feats = sorted({j[6] for j in jobs})
    for f in feats:
        warm(f)
    with ThreadPoolExecutor(max_workers=H.WORKERS) as ex:
        results = list(ex.map(lambda j: run_one(j, timeout), jobs))
    sums, vios = [], []
    stats = {"miri_processes": len(jobs), "miri_cpu_s": round(sum(r["wall"] for r in results), 1), "miri_errors": 0}
    for r in results:
        scenario, wseed, a, b, mseed, preempt, features = r["job"][:7]
        model = r["job"][7] if len(r["job"]) > 7 else "tb"
        stats["aliasing_models"] = sorted(set(stats.get("aliasing_models", [])) | {model})
        base = {"engine": "miri", "scenario": scenario, "seed": wseed, "run": a, "from": a, "to": b,
                "miri_seed": mseed, "preemption_rate": preempt, "features": features, "model": model}
        for rec in r["lines"]:
            if rec.get("type") == "summary":
                rec["scenario"] = scenario
                sums.append(rec)
            elif rec.get("type") == "violation":
                v = dict(base)
                v.update({"type": "violation", "key": f"{prop}/under-miri/" + rec["key"], "detail": rec["detail"],
                          "case": rec.get("case"), "inner_engine": rec.get("engine")})
                vios.append(v)
        if r.get("timeout"):
            v = dict(base)
            v.update({"type": "violation", "key": f"{prop}/miri/{scenario}/does-not-terminate",
                      "detail": f"no result within {timeout}s (deadlock or livelock under Miri's scheduler?)", "case": None})
            vios.append(v)
        elif r.get("miri_error"):
            stats["miri_errors"] += 1
            v = dict(base)
            v.update({"type": "violation", "key": f"{prop}/miri/{scenario}/{r['miri_error']} @ {r['site']}",
                      "detail": r["stderr"][-1500:], "case": None})
            vios.append(v)
    return sums, vios, stats


def replay_file(path):
    rec = json.load(open(path))
    job = (rec["scenario"], rec["seed"], rec["from"], rec["to"], rec["miri_seed"], rec["preemption_rate"], rec["features"],
           rec.get("model", "tb"))
    warm(rec["features"])
    r = run_one(job, 600)
    prop = rec.get("property", "C11")
    # one Miri process covers a small range of cases: it may report a model-level violation for one
    # case and still die of UB in a later one, so every class seen in the re-run counts
    keys = [f"{prop}/under-miri/" + x["key"] for x in r["lines"] if x.get("type") == "violation"]
    if r.get("timeout"):
        keys.append(f"{prop}/miri/{rec['scenario']}/does-not-terminate")
    elif r.get("miri_error"):
        keys.append(f"{prop}/miri/{rec['scenario']}/{r['miri_error']} @ {r['site']}")
    return {"reproduced": rec["key"] in keys, "keys": keys, "expected": rec["key"]}

"""Orchestration shared by all checks: build, shard seeded runs over worker
processes, merge, triage against known_findings.jsonl, write replays and evidence.

Nothing here makes a random choice: every run is (VERIF_SEED, run index), and the
merged result does not depend on the number of workers.
"""
import json
import os
import re
import subprocess
import sys
import time
from concurrent.futures import ThreadPoolExecutor

ROOT = os.path.dirname(os.path.dirname(os.path.abspath(__file__)))
SIM = os.path.join(ROOT, "sim")
EVID = os.path.join(ROOT, "evidence")
REPLAYS = os.path.join(ROOT, "replays")
KNOWN = os.path.join(ROOT, "known_findings.txt")
DEFAULT_SEED = 20261003
WORKERS = int(os.environ.get("VERIF_WORKERS", "16"))
GUARD_FLAGS = "--cfg rosu_pp_verif"


class HarnessError(Exception):
    pass


def env_offline(extra=None):
    e = dict(os.environ)
    e["CARGO_NET_OFFLINE"] = "true"
    e["RUSTFLAGS"] = (GUARD_FLAGS + " " + e.get("VERIF_EXTRA_RUSTFLAGS", "")).strip()
    e.pop("CARGO_TARGET_DIR", None)
    if extra:
        e.update(extra)
    return e


def seed():
    try:
        return int(os.environ.get("VERIF_SEED", DEFAULT_SEED))
    except ValueError:
        return DEFAULT_SEED


# ------------------------------------------------------------------ builds

BUILDS = {
    # name: (features, target dir, cargo profile)
    "default": ("", "target", "release"),
    "raw": ("raw_strains", "target-raw", "release"),
    "sync": ("sync", "target-sync", "release"),
    "both": ("raw_strains,sync", "target-both", "release"),
    "plain": ("", "target", "plain"),
    # what a downstream user ships: no debug assertions, no overflow checks
    "raw-plain": ("raw_strains", "target-raw", "plain"),
    "sync-plain": ("sync", "target-sync", "plain"),
    "both-plain": ("raw_strains,sync", "target-both", "plain"),
}


def sim_bin(build="default"):
    feats, tdir, profile = BUILDS[build]
    return os.path.join(SIM, tdir, profile, "sim")


def build(build="default", quiet=True):
    feats, tdir, profile = BUILDS[build]
    cmd = ["cargo", "build", "--offline", "--profile", profile, "--target-dir", tdir]
    if feats:
        cmd += ["--features", feats]
    t0 = time.time()
    r = subprocess.run(cmd, cwd=SIM, env=env_offline(), capture_output=True, text=True)
    if r.returncode != 0:
        sys.stderr.write(r.stdout[-4000:] + r.stderr[-8000:])
        raise HarnessError(f"cargo build failed for build '{build}'")
    if not quiet:
        print(f"built {build} in {time.time() - t0:.1f}s")
    return sim_bin(build)


def build_all():
    build_shim()
    for b in ("default", "plain", "raw", "sync", "both", "raw-plain", "sync-plain", "both-plain"):
        build(b, quiet=False)
    import miri_engine

    miri_engine.setup()
    return 0


# ------------------------------------------------------------------ sharding


def kill_group(p):
    import signal

    try:
        os.killpg(os.getpgid(p.pid), signal.SIGKILL)
    except (ProcessLookupError, PermissionError):
        p.kill()


def run_killable(cmd, timeout, **kw):
    """subprocess.run(capture_output=True, text=True) that leaves nothing behind on timeout."""
    p = subprocess.Popen(cmd, stdout=subprocess.PIPE, stderr=subprocess.PIPE, text=True, start_new_session=True,
                         preexec_fn=_pdeathsig, **kw)
    try:
        out, err = p.communicate(timeout=timeout)
    except subprocess.TimeoutExpired:
        kill_group(p)
        p.communicate()
        raise
    return subprocess.CompletedProcess(cmd, p.returncode, out, err)


def _pdeathsig():
    """Children must not outlive the check (e.g. when the check itself is killed by a time limit)."""
    try:
        import ctypes
        import signal

        ctypes.CDLL("libc.so.6", use_errno=True).prctl(1, signal.SIGKILL)  # PR_SET_PDEATHSIG
    except Exception:
        pass


def _limit_as(n):
    def f():
        _pdeathsig()
        if n:
            import resource

            resource.setrlimit(resource.RLIMIT_AS, (n, n))

    return f


_SETARCH = None


def no_aslr_prefix():
    """`setarch -R` where the sandbox allows it: address-space layout becomes part of the
    controlled environment for the engines that run under the shim."""
    global _SETARCH
    if _SETARCH is None:
        try:
            ok = subprocess.run(["setarch", "x86_64", "-R", "true"], capture_output=True).returncode == 0
        except OSError:
            ok = False
        _SETARCH = ["setarch", "x86_64", "-R"] if ok else []
    return _SETARCH


def _run_chunk(binary, engine, sd, a, b, tier, timeout, extra_args=(), env=None, rlimit_as=None):
    cmd = [binary, engine, "--seed", str(sd), "--from", str(a), "--to", str(b), "--tier", tier]
    cmd += list(extra_args)
    if env is not None and env.get("LD_PRELOAD"):
        cmd = no_aslr_prefix() + cmd
    e = dict(env if env is not None else os.environ)
    e["VERIF_PROGRESS"] = "1"
    timed_out = False
    p = subprocess.Popen(
        cmd,
        stdout=subprocess.PIPE,
        stderr=subprocess.PIPE,
        text=True,
        env=e,
        preexec_fn=_limit_as(rlimit_as),
        start_new_session=True,  # own process group: a stalled worker is killed with everything below it
    )
    try:
        out, err = p.communicate(timeout=timeout)
    except subprocess.TimeoutExpired:
        kill_group(p)
        out, err = p.communicate()
        timed_out = True
    lines, last_begin = [], None
    for line in out.splitlines():
        line = line.strip()
        if line.startswith("{"):
            try:
                rec = json.loads(line)
            except json.JSONDecodeError:
                continue  # a killed worker may leave a torn last line
            if rec.get("type") == "begin":
                last_begin = rec["run"]
            else:
                lines.append(rec)
    res = {"from": a, "to": b, "lines": lines, "in_flight": last_begin}
    if timed_out:
        res["timeout"] = True
    elif p.returncode not in (0, 1) or not any(x.get("type") == "summary" for x in lines):
        res["crashed"] = True
        res["rc"] = p.returncode
        res["stderr"] = err[-2000:]
    return res


def shard(engine, runs, tier, build_name="default", chunk=None, timeout=900, extra_args=(), env=None, start=0, rlimit_as=None):
    """Runs `runs` seeded cases of `engine`, returns (summaries, violations, anomalies)."""
    binary = sim_bin(build_name)
    sd = seed()
    if chunk is None:
        chunk = max(1, min(2000, runs // (WORKERS * 4) or 1))
    ranges = [(a, min(a + chunk, start + runs)) for a in range(start, start + runs, chunk)]
    with ThreadPoolExecutor(max_workers=WORKERS) as ex:
        results = list(
            ex.map(lambda ab: _run_chunk(binary, engine, sd, ab[0], ab[1], tier, timeout, extra_args, env, rlimit_as), ranges)
        )
    summaries, violations, anomalies = [], [], []
    for res in results:
        if res.get("timeout") or res.get("crashed"):
            anomalies.append(res)
            continue
        for rec in res["lines"]:
            if rec.get("type") == "summary":
                summaries.append(rec)
            elif rec.get("type") == "violation":
                violations.append(rec)
    return summaries, violations, anomalies


def gen_only(binary, engine, sd, i, tier, extra_args=(), env=None):
    g = subprocess.run(
        [binary, engine, "--seed", str(sd), "--from", str(i), "--to", str(i + 1), "--tier", tier, "--gen-only"]
        + list(extra_args),
        capture_output=True,
        text=True,
        timeout=120,
        env=env,
    )
    for line in g.stdout.splitlines():
        if line.startswith("{"):
            j = json.loads(line)
            return j.get("case"), j.get("tags") or []
    return None, []


def isolate_anomaly(engine, res, tier, build_name="default", per_run_timeout=90, extra_args=(), env=None, rlimit_as=None):
    """A chunk stalled or the worker died (abort, stack overflow, memory limit): the worker's
    progress markers name the in-flight run; confirm it alone with a fresh (longer) limit
    before it is believed, then carry on with the rest of the chunk."""
    binary = sim_bin(build_name)
    sd = seed()
    out, summaries = [], []
    lo, hi = res["from"], res["to"]
    cur = res
    while True:
        out.extend(x for x in cur["lines"] if x.get("type") == "violation")
        summaries.extend(x for x in cur["lines"] if x.get("type") == "summary")
        if not (cur.get("timeout") or cur.get("crashed")):
            break
        i = cur.get("in_flight")
        if i is None:
            raise HarnessError(f"worker for {engine} {lo}..{hi} failed before its first run: {cur.get('stderr')}")
        # runs before i in this chunk completed but their summary is lost: redo them (cheap)
        if i > lo:
            redo = _run_chunk(binary, engine, sd, lo, i, tier, 300, extra_args, env, rlimit_as)
            out.extend(x for x in redo["lines"] if x.get("type") == "violation")
            summaries.extend(x for x in redo["lines"] if x.get("type") == "summary")
        alone = _run_chunk(binary, engine, sd, i, i + 1, tier, per_run_timeout, extra_args, env, rlimit_as)
        if alone.get("timeout") or alone.get("crashed"):
            kind = "hang" if alone.get("timeout") else f"abort-rc{alone.get('rc')}"
            case, tags = gen_only(binary, engine, sd, i, tier, extra_args, env)
            if tags:
                kind += "+" + "+".join(tags)
            out.append(
                {
                    "type": "violation",
                    "engine": engine,
                    "seed": sd,
                    "run": i,
                    "key": f"{engine.upper()}/process/{kind}",
                    "detail": (alone.get("stderr") or f"run did not finish within {per_run_timeout}s on its own")[-600:],
                    "case": case,
                    "process_level": True,
                }
            )
        else:
            out.extend(x for x in alone["lines"] if x.get("type") == "violation")
            summaries.extend(x for x in alone["lines"] if x.get("type") == "summary")
        lo = i + 1
        if lo >= hi:
            break
        if any(x.get("process_level") for x in out):
            break  # verdict reached; the rest of this chunk is not needed for it
        cur = _run_chunk(binary, engine, sd, lo, hi, tier, 120, extra_args, env, rlimit_as)
    return out, summaries


# ------------------------------------------------------------------ known findings


def load_known():
    """Parses known_findings.txt; only `known:` lines can suppress a violation."""
    entries = []
    if os.path.exists(KNOWN):
        for line in open(KNOWN):
            line = line.strip()
            if line.startswith("known:"):
                m = re.match(r"known:\s+property=(\S+)\s+key=(\S+)\s+::\s+(.*)", line)
                if not m:
                    raise HarnessError(f"malformed known-findings line: {line}")
                entries.append({"status": "known", "property": m.group(1), "match": m.group(2), "what": m.group(3)})
            elif line.startswith("fixed:"):
                m = re.match(r"fixed:\s+property=(\S+)\s+(\S+)\s+(.*)", line)
                if not m:
                    raise HarnessError(f"malformed known-findings line: {line}")
                entries.append({"status": "fixed", "property": m.group(1), "commit": m.group(2), "what": m.group(3)})
    return entries


def match_known(prop, key, entries):
    for e in entries:
        if e.get("status") != "known" or e.get("property") != prop:
            continue
        if re.fullmatch(e["match"], key):
            return e
    return None


# ------------------------------------------------------------------ replay files


def write_replay(prop, rec):
    d = os.path.join(REPLAYS, prop)
    os.makedirs(d, exist_ok=True)
    safe = re.sub(r"[^A-Za-z0-9_.-]+", "_", rec["key"])[:80]
    path = os.path.join(d, f"{rec.get('seed', 0)}-{rec.get('run', 0)}-{safe}.json")
    with open(path, "w") as f:
        json.dump(rec, f, indent=1, sort_keys=True)
    return path


def replay_file(path, timeout=300):
    rec = json.load(open(path))
    engine = rec["engine"]
    build_name = rec.get("build", "default")
    binary = build(build_name)  # always against /repo's current tree
    if rec.get("process_level"):
        timeout = min(timeout, 100)
    cmd = [binary, engine, "--replay", path]
    if (rec.get("env") or {}).get("LD_PRELOAD"):
        cmd = no_aslr_prefix() + cmd
    try:
        r = run_killable(cmd, timeout, env=rec_env(rec))
    except subprocess.TimeoutExpired:
        return {"reproduced": "/process/hang" in rec.get("key", ""), "key": rec.get("key"), "how": "timeout"}
    for line in r.stdout.splitlines():
        if line.startswith("{"):
            j = json.loads(line)
            if j.get("type") == "replay":
                return j
    if r.returncode not in (0, 1):
        return {"reproduced": "abort" in rec.get("key", ""), "key": rec.get("key"), "how": f"rc={r.returncode}"}
    return {"reproduced": False}


def rec_env(rec):
    e = dict(os.environ)
    for k, v in (rec.get("env") or {}).items():
        e[k] = str(v)
    return e


# ------------------------------------------------------------------ evidence


def merge_counts(dicts):
    out = {}
    for d in dicts:
        for k, v in d.items():
            out[k] = out.get(k, 0) + v
    return dict(sorted(out.items()))


def write_evidence(prop, tier, level, coverage, wall, violations, assumptions):
    if os.environ.get("VERIF_NO_EVIDENCE"):
        return None
    os.makedirs(EVID, exist_ok=True)
    ev = {
        "property_id": prop,
        "tier": tier,
        "seed": seed(),
        "level": level,
        "coverage": coverage,
        "assumptions": assumptions,
        "wall_s": round(wall, 2),
        "violations": violations,
    }
    path = os.path.join(EVID, f"{prop}.json")
    tmp = path + ".tmp"
    with open(tmp, "w") as f:
        json.dump(ev, f, indent=1, sort_keys=True)
    os.replace(tmp, path)
    return path


COMPONENTS = {
    "real": ["rosu-pp (the /repo working tree)", "rosu-map 0.2.1", "rosu-mods 0.3.1", "Rust std"],
    "stub": [],
}


def triage(prop, violations, known_entries):
    """Splits violations into (new, known) and prints the interface lines."""
    new, known = [], {}
    seen_new_keys = {}
    for v in violations:
        e = match_known(prop, v["key"], known_entries)
        if e is not None:
            known.setdefault(e["match"], {"entry": e, "count": 0, "example": v})
            known[e["match"]]["count"] += 1
            continue
        seen_new_keys.setdefault(v["key"], []).append(v)
    for key, vs in sorted(seen_new_keys.items()):
        # one replay per class is enough for the report; keep the smallest case
        vs.sort(key=lambda r: len(json.dumps(r.get("case"))))
        new.append(vs[0])
    return new, known


def _proc_reproduces(rec, case, timeout):
    """Does `case` still stall / kill the worker?"""
    import tempfile

    binary = sim_bin(rec.get("build", "default"))
    with tempfile.NamedTemporaryFile("w", suffix=".json", delete=False) as f:
        json.dump({"case": case, "engine": rec["engine"]}, f)
        path = f.name
    try:
        r = run_killable([binary, rec["engine"], "--replay", path], timeout, env=rec_env(rec))
        return r.returncode not in (0, 1)
    except subprocess.TimeoutExpired:
        return "/process/hang" in rec["key"]
    finally:
        os.unlink(path)


def minimise_process_level(rec, budget=8, step_timeout=20):
    """Delta debugging for stalls/aborts: the worker cannot shrink what kills it, so the parent
    drops hit-object lines of the stored file while a fresh worker still stalls or dies."""
    case = rec.get("case")
    if not case or "content" not in case or "text" not in case["content"]:
        return rec
    text = case["content"]["text"]
    if "[HitObjects]" not in text:
        return rec
    head, objs = text.split("[HitObjects]", 1)
    lines = [l for l in objs.split("\n") if l.strip()]
    used = 0

    def mk(ls):
        c = json.loads(json.dumps(case))
        c["content"]["text"] = head + "[HitObjects]\n" + "\n".join(ls) + "\n"
        return c

    progress = True
    while progress and used < budget and len(lines) > 1:
        progress = False
        n = len(lines)
        for cand in (lines[: n // 2], lines[n // 2 :], lines[: n - max(1, n // 4)], lines[max(1, n // 4) :]):
            if used >= budget or not cand or len(cand) == n:
                continue
            used += 1
            if _proc_reproduces(rec, mk(cand), step_timeout):
                lines = cand
                progress = True
                break
    small = dict(rec)
    small["case"] = mk(lines)
    small["minimise_steps"] = used
    small["original_case"] = case
    return small


def report(prop, new, known):
    for k, info in sorted(known.items()):
        e = info["entry"]
        print(f"KNOWN-FINDING: property={prop} {e['what']} (seen {info['count']}x, key {info['example']['key']})")
    rc = 0
    for v in new[12:]:
        print(f"  further class (not replayed): {v['key']}")
    for v in new[:12]:
        v = dict(v)
        v["property"] = prop
        if v.get("process_level") and v.get("case"):
            v = minimise_process_level(v)
        path = write_replay(prop, v)
        rep = replay_file(path)
        if not rep.get("reproduced") and v.get("original_case"):
            # the shrunk file is only slow, not stalled: fall back to the case as generated
            v["case"] = v.pop("original_case")
            path = write_replay(prop, v)
            rep = replay_file(path)
        if not rep.get("reproduced"):
            # never report something that does not replay as a property violation
            print(f"HARNESS-ERROR: replay {path} did not reproduce ({rep})", file=sys.stderr)
            rc = max(rc, 2)
            continue
        print(f"VIOLATION property={prop} replay={path}")
        print(f"  class: {v['key']}")
        print(f"  detail: {v['detail'][:400]}")
        rc = max(rc, 1) if rc != 2 else 2
    return rc


# ------------------------------------------------------------------ generic seeded-search check

SHIM = os.path.join(ROOT, "shim", "libverif_shim.so")


def build_shim():
    src = os.path.join(ROOT, "shim", "verif_shim.c")
    if os.path.exists(SHIM) and os.path.getmtime(SHIM) >= os.path.getmtime(src):
        return SHIM
    r = subprocess.run(["clang", "-O2", "-shared", "-fPIC", "-o", SHIM, src], capture_output=True, text=True)
    if r.returncode != 0:
        raise HarnessError("cannot build shim: " + r.stderr[-2000:])
    return SHIM


def shim_env():
    e = dict(os.environ)
    e["LD_PRELOAD"] = build_shim()
    return e


SIM_CHECKS = {
    # property: list of dict(engine, quick runs, thorough runs, build, shim)
    "C01": [dict(engine="c01", quick=200000, thorough=3000000, build="default", shim=True)],
    "C02": [dict(engine="c02", quick=200000, thorough=3000000, build="default")],
    "C03": [dict(engine="c03", quick=400000, thorough=6000000, build="default")],
    "C05": [
        dict(engine="c05r", quick=60000, thorough=600000, build="default", rlimit_as=4 << 30, chunk_timeout=120),
        dict(engine="c05r", quick=60000, thorough=600000, build="plain", rlimit_as=4 << 30, chunk_timeout=120),
        dict(engine="c05a", quick=180000, thorough=2400000, build="plain", rlimit_as=4 << 30, chunk_timeout=120),
    ],
    "C06": [dict(engine="c06", quick=250000, thorough=4000000, build="default")],
    "C15": [dict(engine="c15", quick=400000, thorough=6000000, build="default")],
    "C18": [dict(engine="c18", quick=300000, thorough=5000000, build="default")],
}

RULES = {
    "C05": "case = (stored bytes = real-map window or generated map, <= 160 objects, after 0-4 seeded storage faults; "
    "realistic domain: dropped/duplicated/swapped/shuffled lines and editor-magnitude number tweaks, run on the "
    "overflow-checked and the plain build; adversarial domain: additionally truncation, bit flips, byte overwrites, "
    "numbers at the parser limits, NaN/inf tokens, re-encoding, noise, run on the plain build) + seeded target modes, "
    "settings, score specs and nth pattern. Every public call of the list is unwound separately; worker processes run "
    "under RLIMIT_AS 4 GiB with a watchdog, a stalled or dead worker is bisected to the run. Non-trivial = at least one "
    "storage fault; distinct = distinct (fault list, targets, size class).",
    "C06": "case = (stored bytes = generated or real-window .osu text of any mode/version after 0-4 seeded storage faults: "
    "truncation, bit flip, byte overwrite, dropped/duplicated/swapped/shuffled lines, corrupted numeric token, BOM, "
    "UTF-16LE/BE re-encoding, invalid UTF-8, CRLF, noise; reader plan = fill_buf window sizes, EINTR offsets, hard error "
    "offset, premature EOF offset). For ~12% of the files <= 600 bytes every two-chunk split, byte-wise continuation, "
    "truncation offset, EINTR position and hard-error offset is enumerated. Oracles 1-7 of DESIGN 5.6. Non-trivial = at "
    "least one storage or reader fault; distinct = distinct (storage fault list, reader plan, size class).",
    "C18": "case = (map, target mode, history of 1-12 setter calls with in-range, boundary, out-of-range and infinite "
    "values incl. .difficulty(d) replacement, inspect round trips and clones at arbitrary points, score spec, optional "
    "raw write into InspectDifficulty). Three clients replay the history (Performance setters, Difficulty setters, "
    "last-value record model) and must agree on result, inspectable form and clamps; documented-irrelevant setters "
    "must not change the result. Non-trivial = history of >= 2 setters; distinct = distinct (mode, setter-kind sequence).",
    "C01": "case = (pool of 1-3 maps incl. tie-heavy timing, 2-7 logical calls, history of 6-56 ops: calls repeated in "
    "seeded order with fresh or reused builders, interleaved with environment events: new hash universe (fresh "
    "thread = fresh RandomState keys from the getrandom shim), heap noise, allocator junk/poison reseed, clock jump). "
    "Oracle: first-seen memo table per logical call + every pool map equals its pristine clone after every call. "
    "Non-trivial = at least one environment event or reused builder; distinct = distinct op-kind sequence.",
    "C02": "case = (generated or real-window map, target mode, API flavour, Difficulty settings, schedule of "
    "next() calls interleaved with environment events: crash+restart, box/vec/swap moves, thread hop, "
    "step on another thread, interleaved unrelated calculation, early drop of the map). Oracle: value i == "
    "passed_objects(i) one-shot, count == announced len(), final == full. Non-trivial = at least one environment "
    "event or a map with < 4 objects; distinct = distinct (target, API, map-size class, op-kind sequence).",
    "C03": "case = (map, target mode, API flavour, Difficulty settings, history of next/nth/last/len calls with "
    "seeded score states plus crash+restart, moves, interleaving). Oracle: position model + one-shot Performance "
    "with passed_objects(p) and the same state. Distinct = distinct (target, API, size class, op-kind sequence).",
    "C15": "case = (map, target mode, API flavour, settings, history mixing next, nth(k) incl. k beyond the end and "
    "usize::MAX, len, size_hint, crash+restart via nth, moves, thread steps, then either an std adaptor "
    "(step_by/skip/take/last/count/collect/zip/by_ref().nth) or drain + exhaustion probe). Oracle: sequence "
    "model over the values of plain next() on a twin. Distinct = distinct (target, API, size class, op-kind sequence).",
}

ASSUME = [
    "rustc/std behave as specified; the harness (sim/) is correct",
    "reference models are built from the crate's own simpler paths (one-shot calculation, plain next())",
    "seeded sampling: a clean batch is evidence, not proof",
]


def run_sim_check(prop, tier, level="exploration", extra_cov=None):
    t0 = time.time()
    known_entries = load_known()
    all_sum, all_vio = [], []
    builds = sorted({c["build"] for c in SIM_CHECKS[prop]})
    skipped_anomalies = []
    for b in builds:
        build(b)
    for c in SIM_CHECKS[prop]:
        engine, b = c["engine"], c["build"]
        runs = c["quick"] if tier == "quick" else c["thorough"]
        runs = int(os.environ.get("VERIF_RUNS", runs))
        env = shim_env() if c.get("shim") else None
        rl = c.get("rlimit_as")
        sums, vios, anomalies = shard(engine, runs, tier, b, env=env, rlimit_as=rl, timeout=c.get("chunk_timeout", 900))
        confirmed = 0
        for an in anomalies:
            if confirmed >= 1:
                # one confirmed stall/abort of this engine is a verdict; isolating dozens more
                # (minutes each) would only delay it
                skipped_anomalies.append((engine, b, an["from"], an["to"]))
                continue
            v2, s2 = isolate_anomaly(engine, an, tier, b, env=env, rlimit_as=rl)
            confirmed += sum(1 for x in v2 if x.get("process_level"))
            vios.extend(v2)
            sums.extend(s2)
        for v in vios:
            v["build"] = b
            if c.get("shim"):
                v["env"] = {"LD_PRELOAD": SHIM}
        all_sum.extend(sums)
        all_vio.extend(vios)
    new, known = triage(prop, all_vio, known_entries)
    rc = report(prop, new, known)
    wall = time.time() - t0
    sigs = set()
    for s in all_sum:
        sigs.update(s.get("sigs", []))
    evaluations = sum(s["runs"] for s in all_sum)
    samples = []
    for s in all_sum:
        samples.extend(s.get("samples", []))
        if len(samples) >= 3:
            break
    cov = {
        "evaluations": evaluations,
        "distinct_nontrivial": len(sigs),
        "rule": RULES.get(prop, ""),
        "samples": samples[:3],
        "nontrivial_runs": sum(s.get("nontrivial", 0) for s in all_sum),
        "library_calls": sum(s.get("ops", 0) for s in all_sum),
        "runs_per_hour": int(evaluations / max(wall, 1e-6) * 3600),
        "seeds": {"VERIF_SEED": seed(), "runs": f"0..{evaluations}"},
        "simulated_time": "not applicable: the system under test has no timers or deadlines",
        "faults_fired": merge_counts(s.get("faults", {}) for s in all_sum),
        "probes": merge_counts(s.get("probes", {}) for s in all_sum),
        "violation_classes": merge_counts(s.get("violation_keys", {}) for s in all_sum),
        "known_findings_seen": {k: v["count"] for k, v in known.items()},
        "components": COMPONENTS,
        "builds": builds,
        "workers": WORKERS,
        "stalled_or_dead_chunks_not_isolated": skipped_anomalies,
    }
    if extra_cov:
        cov.update(extra_cov)
    write_evidence(prop, tier, level, cov, wall, len(new), ASSUME)
    print(
        f"{prop} {tier}: {evaluations} runs, {len(sigs)} distinct non-trivial histories, "
        f"{len(new)} new violation classes, {len(known)} known findings, {wall:.1f}s"
    )
    return rc


# ------------------------------------------------------------------ dispatch


LEVELS = {"C06": "fault_enumeration"}


def run_check(prop, tier):
    if prop in ("C11", "C20"):
        import composite

        return composite.run_c11(tier) if prop == "C11" else composite.run_c20(tier)
    if prop == "C10":
        import c10

        return c10.run(tier)
    if prop in SIM_CHECKS:
        return run_sim_check(prop, tier, level=LEVELS.get(prop, "exploration"))
    raise HarnessError(f"no check registered for {prop}")


def replay(prop, path):
    if prop in ("C11", "C20"):
        import composite

        rep = composite.replay_any(prop, path)
    elif prop == "C10":
        import c10

        rep = c10.replay_file(path)
    else:
        rep = replay_file(path)
    print(json.dumps(rep)[:2000])
    if rep.get("reproduced"):
        print(f"VIOLATION property={prop} replay={path}")
        return 1
    return 0


def selftest(args):
    import selftest as st

    return st.main(args)

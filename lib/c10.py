"""E4 driver for C10: four separately built harness binaries replay the same seeds;
their event logs (one digest per library call) must be identical."""
import json
import os
import subprocess
import tempfile
import time
from concurrent.futures import ThreadPoolExecutor

import harness as H

# reference: default features in the shipped (plain) profile; compared with the three other feature sets in the
# same profile and with the overflow-/assertion-checked build of the default features
BUILDS = ["plain", "raw-plain", "sync-plain", "both-plain", "default"]
REF = BUILDS[0]
FEATURES = {"plain": "default", "default": "default", "raw-plain": "raw_strains", "sync-plain": "sync", "both-plain": "raw_strains,sync",
            "raw": "raw_strains", "sync": "sync", "both": "raw_strains,sync"}


def _trace(binary, sd, a, b, tier, timeout=240):
    cmd = [binary, "trace", "--seed", str(sd), "--from", str(a), "--to", str(b), "--tier", tier]
    try:
        r = H.run_killable(cmd, timeout)
    except subprocess.TimeoutExpired:
        return None, "timeout"
    if r.returncode != 0:
        return None, f"rc={r.returncode} {r.stderr[-500:]}"
    recs = {}
    summary = None
    for line in r.stdout.splitlines():
        if line.startswith("{"):
            j = json.loads(line)
            if j.get("type") == "trace":
                recs[j["run"]] = j
            elif j.get("type") == "summary":
                summary = j
    return (recs, summary), None


def _replay_case(binary, case, full=False):
    with tempfile.NamedTemporaryFile("w", suffix=".json", delete=False) as f:
        json.dump({"case": case}, f)
        path = f.name
    try:
        cmd = [binary, "trace", "--replay", path] + (["--full"] if full else [])
        r = H.run_killable(cmd, 300)
        for line in r.stdout.splitlines():
            if line.startswith("{"):
                return json.loads(line)["d"]
        return [f"worker failed rc={r.returncode}"]
    except subprocess.TimeoutExpired:
        return ["timeout"]
    finally:
        os.unlink(path)


def disagree(case, b1, b2):
    d1 = _replay_case(H.sim_bin(b1), case)
    d2 = _replay_case(H.sim_bin(b2), case)
    return d1 != d2, d1, d2


def minimise(case, b1, b2, budget=120):
    """Delta debugging while the same pair of builds still disagrees."""
    used = 0
    best = case
    # 1. single op
    _, d1, d2 = disagree(best, b1, b2)
    for i, (x, y) in enumerate(zip(d1, d2)):
        if x != y:
            cand = dict(best, ops=[best["ops"][i]])
            used += 1
            if disagree(cand, b1, b2)[0]:
                best = cand
            break
    # 2. objects: halves, then single lines
    progress = True
    while progress and used < budget:
        progress = False
        objs = best["map"]["objects"]
        n = len(objs)
        cands = []
        if n > 3:
            cands += [objs[: n // 2], objs[n // 2 :], objs[: n - n // 4], objs[n // 4 :]]
        cands += [objs[:i] + objs[i + 1 :] for i in range(n - 1, -1, -1)]
        for c in cands:
            if used >= budget:
                break
            cand = dict(best, map=dict(best["map"], objects=c))
            used += 1
            if disagree(cand, b1, b2)[0]:
                best = cand
                progress = True
                break
    # 3. settings
    op = dict(best["ops"][0])
    for field in ("mods", "clock_rate", "ar", "cs", "hp", "od", "hr_offsets", "lazer"):
        if op["diff"].get(field) is not None and used < budget:
            d = dict(op["diff"])
            d[field] = None
            cand = dict(best, ops=[dict(op, diff=d)])
            used += 1
            if disagree(cand, b1, b2)[0]:
                best = cand
                op = dict(best["ops"][0])
    return best, used


def run(tier):
    t0 = time.time()
    sd = H.seed()
    for b in BUILDS:
        H.build(b)
    runs = int(os.environ.get("VERIF_RUNS", 100000 if tier == "quick" else 1500000))
    chunk = max(1, min(1000, runs // (H.WORKERS)))
    ranges = [(a, min(a + chunk, runs)) for a in range(0, runs, chunk)]
    jobs = [(b, a, e) for (a, e) in ranges for b in BUILDS]
    # a build that deadlocks or spins stalls *every* chunk: two stalled chunks are a verdict, the rest is skipped
    stalled_count = {b: 0 for b in BUILDS}

    def one(j):
        if stalled_count[j[0]] >= 2:
            return None, "skipped"
        res = _trace(H.sim_bin(j[0]), sd, j[1], j[2], tier)
        if res[1] is not None:
            stalled_count[j[0]] += 1
        return res

    with ThreadPoolExecutor(max_workers=H.WORKERS) as ex:
        results = list(ex.map(one, jobs))
    by_build = {b: {} for b in BUILDS}
    ops_total = {b: 0 for b in BUILDS}
    stalled = []
    for (b, a, e), (res, err) in zip(jobs, results):
        if err == "skipped":
            continue
        if err:
            stalled.append((b, a, e, err))
            continue
        recs, summary = res
        by_build[b].update(recs)
        if summary:
            ops_total[b] += summary["ops"]
            want = FEATURES[b]
            if summary["features"] != want:
                raise H.HarnessError(f"binary for build {b} reports features {summary['features']}")
    violations = []
    # a build that does not terminate / dies where the others finish is a disagreement too
    seen_stalled = set()
    for b, a, e, err in stalled:
        if b in seen_stalled:
            continue
        seen_stalled.add(b)
        violations.append(
            {
                "type": "violation",
                "engine": "trace",
                "seed": sd,
                "run": a,
                "key": f"C10/build-{b}-does-not-finish",
                "detail": f"build {b} on runs {a}..{e}: {err}",
                "case": None,
                "builds": [b, REF],
                "process_level": True,
            }
        )
    sigs = set()
    mismatched = {}
    for run_i, ref in by_build[REF].items():
        sigs.add((tuple(ref["k"]), ref["objs"] // 8))
        for b in BUILDS[1:]:
            other = by_build[b].get(run_i)
            if other is None:
                continue
            if other["d"] != ref["d"]:
                idx = next(i for i, (x, y) in enumerate(zip(ref["d"], other["d"])) if x != y)
                kind = ref["k"][idx].split(":")[0]
                mode = ["osu", "taiko", "catch", "mania"][int(ref["k"][idx].split(":")[1])]
                key = f"C10/{REF}-vs-{b}/{kind}/{mode}"
                mismatched.setdefault(key, []).append((run_i, b))
    for key, lst in sorted(mismatched.items()):
        run_i, b = lst[0]
        g = subprocess.run(
            [H.sim_bin(REF), "trace", "--seed", str(sd), "--from", str(run_i), "--to", str(run_i + 1), "--tier", tier, "--gen-only"],
            capture_output=True,
            text=True,
        )
        case = json.loads(g.stdout.splitlines()[0])["case"]
        small, used = minimise(case, REF, b)
        f1 = _replay_case(H.sim_bin(REF), small, full=True)
        f2 = _replay_case(H.sim_bin(b), small, full=True)
        violations.append(
            {
                "type": "violation",
                "engine": "trace",
                "seed": sd,
                "run": run_i,
                "key": key,
                "detail": f"{len(lst)} runs disagree; minimised: {REF} -> {f1[0][:300]} | {b} -> {f2[0][:300]}",
                "case": small,
                "builds": [REF, b],
                "minimise_steps": used,
            }
        )
    known_entries = H.load_known()
    new, known = H.triage("C10", violations, known_entries)
    rc = 0
    for k, info in sorted(known.items()):
        print(f"KNOWN-FINDING: property=C10 {info['entry']['what']} (seen {info['count']}x)")
    for v in new:
        v["property"] = "C10"
        path = H.write_replay("C10", v)
        if v.get("case") is not None:
            rep = replay_file(path)
            if not rep["reproduced"]:
                print(f"HARNESS-ERROR: replay {path} did not reproduce", flush=True)
                rc = 2
                continue
        print(f"VIOLATION property=C10 replay={path}")
        print(f"  class: {v['key']}")
        print(f"  detail: {v['detail'][:500]}")
        rc = max(rc, 1) if rc != 2 else 2
    wall = time.time() - t0
    evaluations = sum(len(by_build[b]) for b in BUILDS)
    samples = []
    for run_i in sorted(by_build[REF])[:2]:
        samples.append({"run": run_i, "ops": by_build[REF][run_i]["k"], "objects": by_build[REF][run_i]["objs"],
                        "digests_reference_build": by_build[REF][run_i]["d"][:3]})
    cov = {
        "evaluations": evaluations,
        "distinct_nontrivial": len(sigs),
        "rule": "case = (map with emphasis on taiko/converts, bursts separated by breaks of 0.9 s - 57 min, long-gap maps, real-map "
        "windows; 3-7 ops out of calculate / strains / prefix / performance / gradual difficulty with thread hand-over points / "
        "gradual performance / convert, with seeded settings). The same (seed, run) is executed by four binaries built with "
        "features {}, {raw_strains}, {sync}, {raw_strains,sync} in the shipped profile (no debug assertions, no overflow checks) plus the "
        "checked build of the default features; logs must be identical per library call. evaluations = runs x builds; "
        "distinct = distinct (op-kind sequence, size class) among the runs.",
        "samples": samples,
        "seeded_runs_per_build": len(by_build[REF]),
        "library_calls_per_build": ops_total,
        "runs_per_hour": int(evaluations / max(wall, 1e-6) * 3600),
        "seeds": {"VERIF_SEED": sd, "runs": f"0..{runs}"},
        "simulated_time": "not applicable: the system under test has no timers or deadlines",
        "faults_fired": {"build_configuration_switch": len(BUILDS), "thread_handover_points_in_sync_builds": "seeded per gradual op"},
        "builds": [f"{b} = features [{FEATURES[b]}], profile {'plain (no debug assertions / overflow checks)' if 'plain' in b else 'checked'}" for b in BUILDS],
        "disagreeing_runs": {k: len(v) for k, v in mismatched.items()},
        "components": H.COMPONENTS,
    }
    H.write_evidence("C10", tier, "exploration", cov, wall, len(new), H.ASSUME + ["the four binaries differ only in cargo features (checked: each reports its feature set)"])
    print(f"C10 {tier}: {len(by_build[REF])} runs x {len(BUILDS)} builds, {len(sigs)} distinct histories, {len(new)} new violation classes, {wall:.1f}s")
    return rc


def replay_file(path):
    rec = json.load(open(path))
    b1, b2 = rec.get("builds", [REF, "raw-plain"])
    for b in (b1, b2):
        H.build(b)
    if rec.get("case") is None:
        return {"reproduced": False, "note": "process-level record without a case"}
    dis, d1, d2 = disagree(rec["case"], b1, b2)
    return {"reproduced": dis, "key": rec.get("key"), b1: d1, b2: d2}

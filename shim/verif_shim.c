// LD_PRELOAD seam: the two OS sources of nondeterminism a Rust library can reach without
// asking the caller -- randomness (std's RandomState keys come from getrandom) and time --
// are replaced by seeded, deterministic streams owned by the simulator.
//
//   verif_set_hash_seed(s)   reseed the getrandom stream (called by the harness per run)
//   verif_set_clock(ns)      set the simulated clock; every read advances it by a seeded jump
//
// Off by default: without LD_PRELOAD nothing changes.
#define _GNU_SOURCE
#include <stdint.h>
#include <stddef.h>
#include <stdlib.h>
#include <string.h>
#include <sys/types.h>
#include <time.h>
#include <errno.h>

static uint64_t g_state = 0x9E3779B97F4A7C15ull;
static int g_init = 0;
static uint64_t g_calls = 0;
static int64_t g_clock_ns = 1700000000ll * 1000000000ll;
static uint64_t g_clock_state = 12345;
static uint64_t g_clock_reads = 0;

static uint64_t splitmix(uint64_t *x) {
    uint64_t z = (*x += 0x9E3779B97F4A7C15ull);
    z = (z ^ (z >> 30)) * 0xBF58476D1CE4E5B9ull;
    z = (z ^ (z >> 27)) * 0x94D049BB133111EBull;
    return z ^ (z >> 31);
}

static void init_once(void) {
    if (!g_init) {
        const char *e = getenv("VERIF_HASH_SEED");
        if (e) g_state = strtoull(e, NULL, 10);
        g_init = 1;
    }
}

void verif_set_hash_seed(uint64_t s) { g_init = 1; g_state = s; }
uint64_t verif_getrandom_calls(void) { return g_calls; }
void verif_set_clock(int64_t ns, uint64_t jitter_seed) { g_clock_ns = ns; g_clock_state = jitter_seed; }
uint64_t verif_clock_reads(void) { return g_clock_reads; }
int verif_shim_present(void) { return 1; }

ssize_t getrandom(void *buf, size_t len, unsigned int flags) {
    (void)flags;
    init_once();
    __atomic_add_fetch(&g_calls, 1, __ATOMIC_RELAXED);
    unsigned char *p = buf;
    size_t i = 0;
    while (i < len) {
        uint64_t v = splitmix(&g_state);
        size_t n = len - i < 8 ? len - i : 8;
        memcpy(p + i, &v, n);
        i += n;
    }
    return (ssize_t)len;
}

int clock_gettime(clockid_t clk, struct timespec *ts) {
    (void)clk;
    __atomic_add_fetch(&g_clock_reads, 1, __ATOMIC_RELAXED);
    // seeded jump forward (sometimes large), so that any dependence on time shows up
    // as a reproducible difference between two otherwise identical calls
    uint64_t j = splitmix(&g_clock_state);
    int64_t step = (int64_t)(j % 1000003) * ((j >> 40) % 7 == 0 ? 1000000 : 1);
    g_clock_ns += step + 1;
    {
        ts->tv_sec = g_clock_ns / 1000000000ll;
        ts->tv_nsec = g_clock_ns % 1000000000ll;
    }
    return 0;
}

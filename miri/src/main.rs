//! E3: the same engines as the native simulator, executed by Miri, which owns the
//! thread schedule (seeded, pre-emptive), the allocator addresses and the hash seeds,
//! and monitors every memory access (Tree Borrows), data races, deadlocks and leaks.
//!
//! usage: mscen <engine> <workload seed> <from> <to>     (arguments via argv only)
use std::io::{self, Write};

use simlib::runner::{install_panic_hook, run_range, Tier};

fn main() {
    install_panic_hook();
    let a: Vec<String> = std::env::args().collect();
    let seed: u64 = a.get(2).and_then(|s| s.parse().ok()).unwrap_or(1);
    let from: u64 = a.get(3).and_then(|s| s.parse().ok()).unwrap_or(0);
    let to: u64 = a.get(4).and_then(|s| s.parse().ok()).unwrap_or(1);
    let out = &mut io::stdout().lock();
    let t = Tier::Quick;
    let r = match a.get(1).map(String::as_str) {
        Some("strains") => run_range::<simlib::strainsvec::StrainsVecEngine>(seed, from, to, t, out),
        Some("consume") => run_range::<simlib::grad::C11ConsumeEngine>(seed, from, to, t, out),
        Some("builder") => run_range::<simlib::builder::C18Engine>(seed, from, to, t, out),
        Some("edited") => run_range::<simlib::edited::C11EditedEngine>(seed, from, to, t, out),
        Some("life15") => run_range::<simlib::grad::C15Engine>(seed, from, to, t, out),
        Some("life02") => run_range::<simlib::grad::C02Engine>(seed, from, to, t, out),
        Some("life03") => run_range::<simlib::grad::C03Engine>(seed, from, to, t, out),
        Some("sliders") => run_range::<simlib::io::C11DecodeEngine>(seed, from, to, t, out),
        Some("decode") => run_range::<simlib::io::C06Engine>(seed, from, to, t, out),
        Some("storm") => run_range::<simlib::conc::C20StormEngine>(seed, from, to, t, out),
        Some("threads") => run_range::<simlib::conc::C20Engine>(seed, from, to, t, out),
        other => {
            eprintln!("harness: unknown miri scenario {other:?}");
            std::process::exit(2);
        }
    };
    let _ = out.flush();
    std::process::exit(i32::from(r.violations > 0));
}

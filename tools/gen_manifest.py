#!/usr/bin/env python3
"""Regenerates MANIFEST.json from the tables below (single source of truth)."""
import json, os, subprocess
ROOT = os.path.dirname(os.path.dirname(os.path.abspath(__file__)))

def repo_commits(prefix):
    out = subprocess.run(["git", "-C", "/repo", "log", "--format=%h %s"], capture_output=True, text=True).stdout
    return [l.split()[0] for l in out.splitlines() if l.split(" ", 1)[1].startswith(prefix)]

CHECKS = {
 "C02": dict(engine="E1 native history simulator (sim c02)", category="exploration", design_ref="5.2",
   technique="deterministic simulation: seeded call/fault histories (crash+restart, moves, thread hops, early map drop) on the stateful gradual calculator, checked step by step against the one-shot calculator as executable reference model",
   text="Seeded search over histories of a stateful calculator with injected environment events, every step refined against the batch calculator. Sampling, not proof: a clean batch is evidence.",
   note="Trusts the one-shot calculator as the reference (the property is a refinement claim between the two paths), rustc/std, and the harness. Maps are generated (<= 60 objects) or windows of the four real maps."),
 "C03": dict(engine="E1 native history simulator (sim c03)", category="exploration", design_ref="5.3",
   technique="deterministic simulation: seeded histories of next/nth/last/len with arbitrary score states plus crash+restart/moves, checked against a position model and the one-shot Performance calculator",
   text="Seeded search over call histories of the gradual performance calculators against a small executable model (position counter + one-shot Performance).",
   note="Trusts one-shot Performance as reference, and the one-shot difficulty attributes for the number of steps."),
 "C15": dict(engine="E1 native history simulator (sim c15)", category="exploration", design_ref="5.4",
   technique="deterministic simulation: seeded call histories (next, nth(k) incl. beyond the end, len, size_hint, std adaptors, crash+restart, moves) against a sequence model built from plain next() on a twin",
   text="Seeded search over iterator-protocol histories against a vector-and-cursor model; includes exhaustion probes after every history.",
   note="The model sequence is whatever plain next() yields on a twin instance; C02 ties that sequence to the one-shot calculator."),
}

NOT_APPLICABLE = {
 "C04": "Pure relation between two call paths of by-value builders (attributes path vs map path); no schedule, fault, clock, I/O or multi-step history can change its truth, so deterministic simulation has nothing to vary beyond the input (DESIGN.md section 6).",
 "C07": "Pure relation between conversion entry points on the same input; convert_mut returns before mutating on error, so there is no partial state to crash into (DESIGN.md section 6).",
 "C08": "Equivalence of mod representations is a relation on inputs only (DESIGN.md section 6).",
 "C09": "Predicate on outputs of pure functions over realistic inputs; its domain excludes corrupted files, so not even storage faults apply (DESIGN.md section 6).",
 "C12": "Closed-form integer arithmetic on counts; the two- and three-call sequences it mentions are fixed, not a space of histories or faults to search (DESIGN.md section 6).",
 "C13": "Optimality over a finite shape space is decided by exhaustive enumeration, i.e. model checking, not seeded simulation (DESIGN.md section 6).",
 "C14": "Object counts as a function of (map, n): a relation on inputs (DESIGN.md section 6).",
 "C16": "Relation between two outputs of the same pure call (DESIGN.md section 6).",
 "C17": "Relations over a continuous parameter grid of a pure builder (DESIGN.md section 6).",
 "C19": "Predicate on the output of a pure conversion function; converter PRNGs are seeded from the map (DESIGN.md section 6).",
}

def main():
    checks = []
    for pid, c in sorted(CHECKS.items()):
        checks.append({
            "property_id": pid,
            "quick_cmd": f"./check {pid} quick",
            "thorough_cmd": f"./check {pid} thorough",
            "evidence_file": f"/verif/evidence/{pid}.json",
            "replay_cmd_template": f"./check {pid} --replay {{path}}",
            "engine": c["engine"],
            "level_claimed": {"category": c["category"], "text": c["text"], "design_ref": c["design_ref"]},
            "level_note": c["note"],
            "technique": c["technique"],
        })
    man = {
        "version": 1,
        "setup_cmd": "./check build",
        "hooks": {
            "guard": "--cfg rosu_pp_verif",
            "enable": "RUSTFLAGS='--cfg rosu_pp_verif' (set by lib/harness.py for every harness build; off by default)",
            "baseline_off_cmd": "cd /repo && cargo test --workspace --no-fail-fast --offline",
            "source_commits": repo_commits("verif-hook:"),
            "add_only": True,
        },
        "engines": [
            {"name": "E1", "path": "sim/src/{grad,hist,builder}.rs", "serves_properties": ["C01", "C02", "C03", "C15", "C18"], "kind_free_text": "native history simulator: seeded scheduler over stateful clients with reference models and environment faults"},
            {"name": "E2", "path": "sim/src/io.rs", "serves_properties": ["C06"], "kind_free_text": "simulated BufRead (short reads, EINTR, hard errors, premature EOF) and stored-byte faults"},
            {"name": "E3", "path": "miri/", "serves_properties": ["C11", "C20"], "kind_free_text": "Miri as seeded thread scheduler and memory monitor"},
            {"name": "E4", "path": "sim/src/trace.rs", "serves_properties": ["C10"], "kind_free_text": "four feature builds replay the same seeds, event logs diffed"},
            {"name": "E5", "path": "sim/src/pipe.rs", "serves_properties": ["C05"], "kind_free_text": "corrupt-file pipeline in crash-isolated worker processes with watchdog"},
        ],
        "checks": checks,
        "not_applicable": [{"property_id": k, "reason": v} for k, v in sorted(NOT_APPLICABLE.items())],
        "notes": "Fix commits in /repo: " + ", ".join(repo_commits("fix:")) + ". See DESIGN.md and known_findings.jsonl.",
    }
    with open(os.path.join(ROOT, "MANIFEST.json"), "w") as f:
        json.dump(man, f, indent=1)
    print("MANIFEST.json written:", len(checks), "checks,", len(NOT_APPLICABLE), "not applicable")

if __name__ == "__main__":
    main()

#!/usr/bin/env python3
"""Regenerates MANIFEST.json from the tables below (single source of truth)."""
import json, os, subprocess
ROOT = os.path.dirname(os.path.dirname(os.path.abspath(__file__)))

def repo_commits(prefix):
    out = subprocess.run(["git", "-C", "/repo", "log", "--format=%h %s"], capture_output=True, text=True).stdout
    return [l.split()[0] for l in out.splitlines() if l.split(" ", 1)[1].startswith(prefix)]

CHECKS = {
 "C01": dict(engine="E1 native history simulator (sim c01) + LD_PRELOAD getrandom/clock shim + SimAlloc", category="exploration", design_ref="5.1",
   technique="deterministic simulation: seeded call histories over a pool of maps with environment faults (fresh hash universe per thread via a getrandom shim, heap noise, allocator poison reseed, clock jumps, reused vs fresh builders); first-seen memo table and pristine-map comparison as oracles",
   text="Seeded search over call histories with every ambient source of nondeterminism (hash seeds, addresses, clock, thread placement) owned and varied by the simulator; equality of repeated logical calls and immutability of borrowed maps checked after every step.",
   note="Assumes getrandom and clock_gettime are the only ways std reaches OS randomness/time on this platform (the shim counts its calls); ASLR is not controlled, replays are verified in a fresh process before a violation is printed."),
 "C02": dict(engine="E1 native history simulator (sim c02)", category="exploration", design_ref="5.2",
   technique="deterministic simulation: seeded call/fault histories (crash+restart, moves, thread hops, early map drop) on the stateful gradual calculator, checked step by step against the one-shot calculator as executable reference model",
   text="Seeded search over histories of a stateful calculator with injected environment events, every step refined against the batch calculator. Sampling, not proof: a clean batch is evidence.",
   note="Trusts the one-shot calculator as the reference (the property is a refinement claim between the two paths), rustc/std, and the harness. Maps are generated (<= 60 objects) or windows of the four real maps."),
 "C03": dict(engine="E1 native history simulator (sim c03)", category="exploration", design_ref="5.3",
   technique="deterministic simulation: seeded histories of next/nth/last/len with arbitrary score states plus crash+restart/moves, checked against a position model and the one-shot Performance calculator",
   text="Seeded search over call histories of the gradual performance calculators against a small executable model (position counter + one-shot Performance).",
   note="Trusts one-shot Performance as reference, and the one-shot difficulty attributes for the number of steps."),
 "C05": dict(engine="E5 corrupt-file pipeline in crash-isolated workers (sim c05r / c05a)", category="exploration", design_ref="5.7",
   technique="fault injection on stored bytes (torn/lost/duplicated/reordered lines, bit flips, corrupted numbers, re-encoding) feeding the whole public pipeline in worker processes under RLIMIT_AS with a watchdog; stalled or dead workers are bisected to the in-flight run via progress markers",
   text="Seeded storage-fault injection over real and generated files, two domains (realistic: checked + plain build; adversarial: plain build); every public call unwound separately; process-level crash/hang isolation.",
   note="The time budget is 30 CPU-seconds per call / 90 s per run alone (three orders of magnitude above typical); the memory budget is RLIMIT_AS 4 GiB. One known finding (hours-long sliders in osu!catch) is listed in known_findings.txt."),
 "C06": dict(engine="E2 simulated reader + stored-byte faults (sim c06)", category="fault_enumeration", design_ref="5.6",
   technique="fault injection through the decoder's existing BufRead seam: seeded and, for small files, enumerated short reads, EINTR, hard I/O errors and premature EOF over stored bytes that went through seeded storage faults; single-chunk decode, single-line decode and torn-prefix decode as reference models",
   text="For ~12% of files <= 600 bytes every two-chunk split, truncation offset, EINTR position and hard-error offset is enumerated; everything else is seeded sampling. Seven oracles (totality, schedule independence, error containment, torn-file equivalence, entry-point agreement, well-formedness, sound pairing).",
   note="Enumeration is per file and single-fault; multi-fault plans and large files are sampled. Known finding in the dependency rosu-map (first fill_buf window of 1-2 bytes) is listed in known_findings.txt."),
 "C10": dict(engine="E4 cross-build trace differ (sim trace x 5 builds, lib/c10.py)", category="exploration", design_ref="5.8",
   technique="deterministic simulation replayed across build configurations: the same seeded workload (incl. thread hand-over events) is executed by five separately built binaries (four feature sets in the shipped profile + the checked default build) and the per-call event logs are diffed; disagreements are minimised by delta debugging over the case",
   text="Seeded workload with emphasis on taiko, converts and maps with breaks of up to 57 minutes, executed under all four feature combinations in the shipped profile and by the checked default build; logs must match call by call (numerically: -0.0 == 0.0).",
   note="Equality is numeric equality of every reported field as the property states; the four binaries are checked to report the feature set they were built with."),
 "C11": dict(engine="E3 Miri (miri/ mscen) + E1 native with SimAlloc poisoning (sim c11s, c11d, c15, c02)", category="exploration", design_ref="5.9",
   technique="deterministic simulation under a memory monitor: seeded operation histories on the strain list vs a Vec model, on gradual calculators (moves, restarts, early drops, thread hops) and on the decoder with malformed slider paths through byte-wise readers, executed natively with allocator junk/poison and under Miri (Tree Borrows and Stacked Borrows alternating), whose seed fixes schedule and addresses",
   text="Miri checks every access on small cases (hundreds per run); native runs cover hundreds of thousands of full-size histories where a stale read surfaces as a wrong value, a panic or an abort.",
   note="Trusts Miri's aliasing models (both Tree Borrows and Stacked Borrows are run; both are experimental) and -Zmiri-deterministic-floats. Needs the verif-hook re-export of StrainsVec."),
 "C15": dict(engine="E1 native history simulator (sim c15)", category="exploration", design_ref="5.4",
   technique="deterministic simulation: seeded call histories (next, nth(k) incl. beyond the end, len, size_hint, std adaptors, crash+restart, moves) against a sequence model built from plain next() on a twin",
   text="Seeded search over iterator-protocol histories against a vector-and-cursor model; includes exhaustion probes after every history.",
   note="The model sequence is whatever plain next() yields on a twin instance; C02 ties that sequence to the one-shot calculator."),
 "C18": dict(engine="E1 native history simulator (sim c18)", category="exploration", design_ref="5.5",
   technique="deterministic simulation of setter-call histories: three clients (Performance setters, Difficulty setters, last-value record model) replay the same seeded history incl. replacement, inspect round trips, clones and raw writes into the inspectable form, and must agree",
   text="Seeded search over setter histories with in-range, boundary, out-of-range and infinite values; weakest fit of the technique (no fault, schedule or I/O), kept because the property quantifies over orders of setter application.",
   note="NaN inputs are not generated (the property speaks of out-of-range values). The record model encodes the documented clamps."),
 "C20": dict(engine="E3 Miri thread scheduler (miri/ mscen threads, storm) + E1 turn-based worker threads (sim c20, c20s)", category="exploration", design_ref="5.10",
   technique="deterministic simulation of thread schedules: Miri's seeded pre-emptive scheduler (data-race and deadlock detection) over jobs on shared and separate maps, plus native persistent worker threads released one unit of work at a time with seeded hand-over of gradual calculators (A->B->A); results compared with the sequential run",
   text="Sampling of interleavings (Miri preemption rate 0.05-0.1, a few hundred executions per run) plus tens of thousands of replayable turn-based schedules in default and sync builds.",
   note="Miri samples interleavings, it does not enumerate them. Natively two units never overlap by construction, so true races are only visible to the Miri part."),
}

NOT_APPLICABLE = {
 "C04": "Pure relation between two call paths of by-value builders (attributes path vs map path); no schedule, fault, clock, I/O or multi-step history can change its truth, so deterministic simulation has nothing to vary beyond the input (DESIGN.md section 6).",
 "C07": "Pure relation between conversion entry points on the same input; convert_mut returns before mutating on error, so there is no partial state to crash into (DESIGN.md section 6).",
 "C08": "Equivalence of mod representations is a relation on inputs only (DESIGN.md section 6).",
 "C09": "Predicate on outputs of pure functions over realistic inputs; its domain excludes corrupted files, so not even storage faults apply (DESIGN.md section 6).",
 "C12": "Closed-form integer arithmetic on counts; the two- and three-call sequences it mentions are fixed, not a space of histories or faults to search (DESIGN.md section 6).",
 "C13": "Optimality over a finite shape space is decided by exhaustive enumeration, i.e. model checking, not seeded simulation (DESIGN.md section 6).",
 "C14": "Object counts as a function of (map, n): a relation on inputs (DESIGN.md section 6).",
 "C16": "Relation between two outputs of the same pure call (DESIGN.md section 6).",
 "C17": "Relations over a continuous parameter grid of a pure builder (DESIGN.md section 6).",
 "C19": "Predicate on the output of a pure conversion function; converter PRNGs are seeded from the map (DESIGN.md section 6).",
}

def main():
    checks = []
    for pid, c in sorted(CHECKS.items()):
        checks.append({
            "property_id": pid,
            "quick_cmd": f"./check {pid} quick",
            "thorough_cmd": f"./check {pid} thorough",
            "evidence_file": f"/verif/evidence/{pid}.json",
            "replay_cmd_template": f"./check {pid} --replay {{path}}",
            "engine": c["engine"],
            "level_claimed": {"category": c["category"], "text": c["text"], "design_ref": c["design_ref"]},
            "level_note": c["note"],
            "technique": c["technique"],
        })
    man = {
        "version": 1,
        "setup_cmd": "./check build",
        "hooks": {
            "guard": "--cfg rosu_pp_verif",
            "enable": "RUSTFLAGS='--cfg rosu_pp_verif' (set by lib/harness.py for every harness build; off by default)",
            "baseline_off_cmd": "cd /repo && cargo test --workspace --no-fail-fast --offline",
            "source_commits": repo_commits("verif-hook:"),
            "add_only": True,
        },
        "engines": [
            {"name": "E1", "path": "sim/src/{grad,hist,builder}.rs", "serves_properties": ["C01", "C02", "C03", "C15", "C18"], "kind_free_text": "native history simulator: seeded scheduler over stateful clients with reference models and environment faults"},
            {"name": "E2", "path": "sim/src/io.rs", "serves_properties": ["C06"], "kind_free_text": "simulated BufRead (short reads, EINTR, hard errors, premature EOF) and stored-byte faults"},
            {"name": "E3", "path": "miri/", "serves_properties": ["C11", "C20"], "kind_free_text": "Miri as seeded thread scheduler and memory monitor"},
            {"name": "E4", "path": "sim/src/trace.rs", "serves_properties": ["C10"], "kind_free_text": "four feature builds replay the same seeds, event logs diffed"},
            {"name": "E5", "path": "sim/src/pipe.rs", "serves_properties": ["C05"], "kind_free_text": "corrupt-file pipeline in crash-isolated worker processes with watchdog"},
        ],
        "checks": checks,
        "not_applicable": [{"property_id": k, "reason": v} for k, v in sorted(NOT_APPLICABLE.items())],
        "notes": "Fix commits in /repo: " + ", ".join(repo_commits("fix:")) + ". See DESIGN.md and known_findings.jsonl.",
    }
    with open(os.path.join(ROOT, "MANIFEST.json"), "w") as f:
        json.dump(man, f, indent=1)
    print("MANIFEST.json written:", len(checks), "checks,", len(NOT_APPLICABLE), "not applicable")

if __name__ == "__main__":
    main()

#!/bin/bash
# usage: tools/confirm_mutant.sh <agent OUT/mN dir> <name>
# Confirms in a scratch worktree of /repo HEAD: patch applies, crate builds (default, sync, raw_strains),
# existing tests pass (minus the known-failing basic_osu and the slow flaky rng_mania_hitresults),
# demo passes without and fails with the patch. Prints a summary line; removes the worktree.
set -u
src="$(readlink -f "$1")"; name="$2"
wt=/tmp/confirm/$name
export CARGO_NET_OFFLINE=true CARGO_TARGET_DIR=/tmp/confirm/target
mkdir -p /tmp/confirm
git -C /repo worktree remove --force "$wt" >/dev/null 2>&1
git -C /repo worktree add -q --detach "$wt" HEAD || exit 2
cd "$wt" || exit 2
demo=$(ls "$src"/demo*.rs | head -1)
mkdir -p tests; cp "$demo" tests/verif_demo.rs
base_demo=$(cargo test --offline --test verif_demo 2>&1 | grep -E '^test result' | tail -1)
if ! git apply "$src/patch.diff"; then echo "RESULT $name: patch does not apply on HEAD"; cd /; git -C /repo worktree remove --force "$wt"; exit 1; fi
b1=$(cargo build --offline 2>&1 | grep -cE '^(warning|error)')
b2=$(cargo build --offline --features sync 2>&1 | grep -cE '^(warning|error)')
b3=$(cargo build --offline --features raw_strains 2>&1 | grep -cE '^(warning|error)')
mut_demo=$(cargo test --offline --test verif_demo 2>&1 | grep -E '^test result' | tail -1)
suite=$(cargo test --offline --no-fail-fast --lib --test decode --test difficulty --test performance -- --skip rng_mania_hitresults 2>&1 | grep -E '^test result|FAILED|failed' | tr '\n' ';')
echo "RESULT $name: build-msgs(default/sync/raw)=$b1/$b2/$b3"
echo "  demo without patch: $base_demo"
echo "  demo with patch   : $mut_demo"
echo "  suite with patch  : $suite"
cd /; git -C /repo worktree remove --force "$wt"

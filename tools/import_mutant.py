#!/usr/bin/env python3
"""usage: tools/import_mutant.py <agent OUT/mN dir> <name> <property> '<confirmation summary>' '<caught by>'"""
import json, os, shutil, sys
src, name, prop, confirmed, caught = sys.argv[1:6]
dst = os.path.join('/verif/seeded', name)
os.makedirs(dst, exist_ok=True)
for f in os.listdir(src):
    if f.endswith(('.diff', '.rs', '.md')):
        shutil.copy(os.path.join(src, f), os.path.join(dst, f))
meta = {}
try:
    meta = json.load(open(os.path.join(src, 'meta.json')))
except Exception as e:
    meta = {'note': f'agent meta.json unreadable: {e}'}
out = {
    'property': prop,
    'origin': 'independent sub-agent given only the property text and a scratch worktree',
    'summary': meta.get('summary'),
    'needs': meta.get('needs'),
    'agent_verified': meta.get('verified'),
    'confirmed_by_me': confirmed,
    'caught_by': caught,
}
json.dump(out, open(os.path.join(dst, 'meta.json'), 'w'), indent=1)
print('imported', name)

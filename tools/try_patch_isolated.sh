#!/bin/bash
# usage: tools/try_patch_isolated.sh <patch.diff> <PROP> [<PROP>...]
# Like try_patch.sh but never touches /repo or /verif: the patch is applied to a scratch worktree of
# /repo HEAD and the checks run from a scratch copy of /verif whose repo-link points at that worktree.
# Safe to use while other runs are using /repo. Scratch dirs are removed afterwards.
set -u
patch="$(readlink -f "$1")"; shift
id=$$
wt=/tmp/iso/repo-$id; vf=/tmp/iso/verif-$id
mkdir -p /tmp/iso
git -C /repo worktree add -q --detach "$wt" HEAD || exit 2
cleanup() { git -C /repo worktree remove --force "$wt" >/dev/null 2>&1; rm -rf "$vf"; }
trap cleanup EXIT
( cd "$wt" && git apply "$patch" ) || { echo "patch does not apply"; exit 2; }
rsync -a --exclude 'target*' --exclude '.git' --exclude 'replays/*' --exclude 'evidence/*' /verif/ "$vf"/
rm -f "$vf/repo-link"; ln -s "$wt" "$vf/repo-link"
# share compiled dependencies: copy the existing target dirs' dep artefacts is not worth it; build fresh
cd "$vf" || exit 2
for p in "$@"; do
  echo "=== $p"
  VERIF_NO_EVIDENCE=1 ./check "$p" ${TIER:-quick} 2>&1 | grep -E 'VIOLATION|KNOWN-FINDING|class:|HARNESS|quick:|thorough:' | head -12
  echo "rc=${PIPESTATUS[0]}"
done

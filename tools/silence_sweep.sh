#!/bin/bash
# Runs the quick tier of the given checks under several VERIF_SEEDs; prints one line per (check, seed).
# usage: tools/silence_sweep.sh "C01 C02 ..." "2 3 5 7"
cd "$(dirname "$0")/.."
export VERIF_NO_EVIDENCE=1
for p in $1; do for s in $2; do
  out=$(VERIF_SEED=$s ./check $p quick 2>&1); rc=$?
  echo "$p seed=$s rc=$rc $(echo "$out" | grep -E 'VIOLATION|HARNESS' | head -3 | tr '\n' ' ') $(echo "$out" | tail -1 | cut -c1-160)"
done; done

#!/bin/bash
# usage: tools/try_patch.sh <patch.diff> <PROP> [<PROP>...]   (applies to /repo, runs quick checks, reverts)
set -u
patch="$(readlink -f "$1")"; shift
cd /repo || exit 2
if ! git diff --quiet; then echo "repo dirty, refusing"; exit 2; fi
git apply "$patch" || { echo "patch does not apply"; exit 2; }
trap 'git -C /repo checkout -- . ; git -C /repo clean -fdq -- tests src >/dev/null 2>&1' EXIT
cd /verif
for p in "$@"; do
  echo "=== $p"
  VERIF_NO_EVIDENCE=1 ./check "$p" quick 2>&1 | grep -E 'VIOLATION|KNOWN-FINDING|class:|HARNESS|quick:' | head -12
  echo "rc=${PIPESTATUS[0]}"
done

#!/bin/bash
# Runs every seeded change against the quick check(s) of its property in isolation (never touches /repo).
# usage: tools/regress_seeded.sh [name-prefix ...]   -> one line per mutant: CAUGHT / MISSED
cd "$(dirname "$0")/.."
for d in seeded/*/; do
  n=$(basename "$d")
  if [ $# -gt 0 ]; then ok=0; for p in "$@"; do case "$n" in $p*) ok=1;; esac; done; [ $ok = 1 ] || continue; fi
  prop=$(python3 -c "import json,sys; print(json.load(open('$d/meta.json'))['property'])" 2>/dev/null)
  [ -z "$prop" ] && { echo "$n: no meta.json"; continue; }
  out=$(tools/try_patch_isolated.sh "$d/patch.diff" $prop 2>&1)
  if echo "$out" | grep -q 'VIOLATION'; then
    echo "$n [$prop]: CAUGHT $(echo "$out" | grep 'class:' | head -2 | tr -s ' ' | tr '\n' ';')"
  else
    echo "$n [$prop]: MISSED $(echo "$out" | grep -E 'HARNESS|does not apply|rc=' | head -2 | tr '\n' ';')"
  fi
done
